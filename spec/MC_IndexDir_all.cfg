CONSTANTS
  Params = {1, 2}
  Tampers = {"python", "mopepgen_new"}
  MaxOps = 4
INIT Init
NEXT Next
INVARIANT PrintHist
