------------------------------- MODULE Variants -------------------------------
(***************************************************************************)
(* Definitional layer: what a set of small variants means for a sequence.  *)
(* A variant is [start, end, ref, alt, id, kind] on a backbone sequence    *)
(* (0-based, half-open): the bases [start, end) -- which spell ref -- are   *)
(* replaced by alt.  SNV, INDEL (VCF style, anchored on the preceding base),*)
(* MNV.                                                                    *)
(***************************************************************************)
EXTENDS Bio

IsIns(v) == Len(v.ref) = 1 /\ Len(v.alt) > 1
IsDel(v) == Len(v.ref) > 1 /\ Len(v.alt) = 1
Frameshift(v) == (Len(v.ref) - Len(v.alt)) % 3 # 0

(* An insertion or deletion anchored on the last base of the start codon is  *)
(* re-anchored on the following base ("end inclusion"): it then occupies      *)
(* [start+1, end+1) and no longer touches the start codon.                    *)
EndIncl(v, startIdx) == v.start = startIdx - 1 /\ (IsIns(v) \/ IsDel(v))
EffStart(v, startIdx) == IF EndIncl(v, startIdx) THEN v.start + 1 ELSE v.start
EffEnd(v, startIdx) == IF EndIncl(v, startIdx) THEN v.end + 1 ELSE v.end

(* variants that may be used on a backbone whose first startIdx bases          *)
(* (5'UTR + start codon, or the first 3 bases of a non-coding transcript) are   *)
(* protected; lastTriplet = <<a, b>> is a protected interval at the 3' end      *)
(* (mRNA_end_NF) or <<0, 0>>                                                    *)
Overlaps(a1, b1, a2, b2) == a1 < b2 /\ a2 < b1
Usable(v, startIdx, lastTriplet) ==
  /\ EffStart(v, startIdx) >= startIdx
  /\ ~Overlaps(EffStart(v, startIdx), EffEnd(v, startIdx), lastTriplet[1], lastTriplet[2])

(* two variants can sit on one haplotype when at least one reference base      *)
(* separates them                                                              *)
Separate(a, b, startIdx) == EffEnd(a, startIdx) < EffStart(b, startIdx) \/ EffEnd(b, startIdx) < EffStart(a, startIdx)
Compatible(H, startIdx) == \A a \in H : \A b \in H : a = b \/ Separate(a, b, startIdx)
Haplotypes(V, startIdx) == {H \in SUBSET V : H # {} /\ Compatible(H, startIdx)}

(* the sequence carrying haplotype H: replace from the 3' end backwards        *)
RECURSIVE Apply(_, _)
Apply(s, H) ==
  IF H = {} THEN s
  ELSE LET v == CHOOSE x \in H : \A y \in H : y.start <= x.start
       IN Apply(Slice(s, 0, v.start) \o v.alt \o Slice(s, v.end, Len(s)), H \ {v})

RefMatches(s, v) == Slice(s, v.start, v.end) = v.ref

Class(v) == IF Len(v.ref) = 1 /\ Len(v.alt) = 1 THEN "SNV" ELSE IF IsIns(v) \/ IsDel(v) THEN "INDEL" ELSE "MNV"

(* --max-adjacent-as-mnv k (the command line default is 2): two directly adjacent   *)
(* variants of one class (both single-base substitutions, or both indels) also sit   *)
(* on one haplotype - the tool merges them into one MNV record - as long as the      *)
(* merged pair is itself separated from every other variant of the haplotype.        *)
(* (Chains of three or more are only merged for k >= 3; with k = 2 they are left to   *)
(* the permissive variant below, which C02 uses.)                                     *)
Adjacent(a, b, startIdx) == EffEnd(a, startIdx) = EffStart(b, startIdx)
Mergeable(a, b, startIdx) ==
  Class(a) = Class(b) /\ Class(a) # "MNV" /\ (Adjacent(a, b, startIdx) \/ Adjacent(b, a, startIdx))
CompatibleK(H, startIdx, k) ==
  \A a \in H : \A b \in H :
     \/ a = b
     \/ Separate(a, b, startIdx)
     \/ (k >= 2 /\ Mergeable(a, b, startIdx)
           /\ \A c \in H \ {a, b} : Separate(a, c, startIdx) /\ Separate(b, c, startIdx))
CompatibleLoose(H, startIdx, k) ==
  \A a \in H : \A b \in H : a = b \/ Separate(a, b, startIdx) \/ (k >= 2 /\ Mergeable(a, b, startIdx))
HaplotypesK(V, startIdx, k) == {H \in SUBSET V : H # {} /\ CompatibleK(H, startIdx, k)}
HaplotypesLoose(V, startIdx, k) == {H \in SUBSET V : H # {} /\ CompatibleLoose(H, startIdx, k)}

(***************************************************************************)
(* An alternative-splicing insertion / substitution brings a donor segment  *)
(* of the gene into the transcript; small variants of the gene that lie in   *)
(* that segment ("nested", given in donor coordinates) may or may not be     *)
(* carried by it.  Each compatible subset of the nested variants gives one   *)
(* alternative form of the record; two forms of one record exclude each      *)
(* other (they occupy the same span).  nids = ids of the nested variants     *)
(* carried.  strict: only nested variants that touch neither the first nor   *)
(* the last donor base (what the tool's lookup considers)                    *)
(***************************************************************************)
Expansions(v, isIns, N, strict) ==
  LET prefix == IF isIns THEN <<v.alt[1]>> ELSE <<>>
      donor == IF isIns THEN Tail(v.alt) ELSE v.alt
      usable == IF strict THEN {x \in N : x.start > 0 /\ x.end < Len(donor)} ELSE N
  IN {[start |-> v.start, end |-> v.end, ref |-> v.ref, alt |-> prefix \o Apply(donor, S), id |-> v.id,
       nids |-> {x.id : x \in S}] : S \in {T \in SUBSET usable : Compatible(T, 0)}}
=============================================================================
