------------------------------ MODULE FilterTrace ------------------------------
(* C19: filterFasta.  An entry is kept iff                                     *)
(*   - it is not denylisted (peptide in the denylist), unless --keep-canonical   *)
(*     and the entry is canonical (not circRNA, first transcript coding), and    *)
(*   - keep-all-noncoding and none of its transcripts is coding, or              *)
(*     keep-all-coding and all of them are, or no expression table is given, or  *)
(*     it is a fusion / circRNA / splice-altering entry, or every transcript's   *)
(*     expression is >= the cutoff;                                              *)
(* a peptide is kept iff its number of cleavage sites is inside the requested    *)
(* range and some entry is kept; sequences never change.                         *)
(* CASES_FILE: array of [pool: [[seq, entries: [[label, txs, fusion, circ,        *)
(*   splice]]]], coding, exprs (record tx -> int), opts, output: [[seq, labels]], *)
(*   again: [[seq, labels]] (filter applied to its own output), stricter: [...]] *)
EXTENDS Cleavage, TLC, Json, IOUtils
Cases == JsonDeserialize(IOEnv.CASES_FILE)
ToSet(s) == {s[i] : i \in 1..Len(s)}
VARIABLE i
Init == i \in 1..Len(Cases)
Next == FALSE /\ i' = i
C == Cases[i]
Clause(name, ok) == ok \/ PrintT(<<"V", i, name>>)
O == C.opts
Coding == ToSet(C.coding)

Expr(tx) == C.exprs[tx]
KeepEntry(p, e) ==
  LET txs == ToSet(e.txs)
      allNon == txs \cap Coding = {}
      allCod == txs \subseteq Coding
      canonical == ~e.circ /\ e.txs[1] \in Coding
  IN IF p.denied /\ ~(O.keepCanonical /\ canonical) THEN FALSE
     ELSE IF O.keepAllNoncoding /\ allNon THEN TRUE
     ELSE IF O.keepAllCoding /\ allCod THEN TRUE
     ELSE IF O.hasExprs THEN e.fusion \/ e.circ \/ e.splice \/ \A t \in txs : Expr(t) >= O.cutoff
     ELSE TRUE

(* number of cleavage sites of the isolated peptide (interior bonds)              *)
NSites(p) == Cardinality({k \in Sites(O.rule, IF O.rule = "trypsin" THEN "trypsin_exception" ELSE "", p.seq) : k < Len(p.seq)})
InRange(p) == (O.miscMin < 0 \/ NSites(p) >= O.miscMin) /\ (O.miscMax < 0 \/ NSites(p) <= O.miscMax)

KeptLabels(p) == IF ~InRange(p) THEN <<>>
                 ELSE SelectSeq([k \in 1..Len(p.entries) |-> p.entries[k]], LAMBDA e : KeepEntry(p, e))
Expected == {[seq |-> C.pool[k].seq, labels |-> [j \in 1..Len(KeptLabels(C.pool[k])) |-> KeptLabels(C.pool[k])[j].label]] :
               k \in {x \in 1..Len(C.pool) : KeptLabels(C.pool[x]) # <<>>}}
Out(f) == {[seq |-> f[k].seq, labels |-> f[k].labels] : k \in 1..Len(f)}

SubCollection(a, b) == \* every record of a is a record of b with a sub-list of its entries
  \A x \in a : \E y \in b : x.seq = y.seq /\ ToSet(x.labels) \subseteq ToSet(y.labels)

Verdict ==
  /\ Clause("exact", Out(C.output) = Expected)
  /\ Clause("each_once", Cardinality({C.output[k].seq : k \in 1..Len(C.output)}) = Len(C.output))
  /\ Clause("idempotent", Out(C.again) = Out(C.output))
  /\ Clause("monotone", SubCollection(Out(C.stricter), Out(C.output)))
  /\ PrintT(<<"V", i, "done">>)
=============================================================================
