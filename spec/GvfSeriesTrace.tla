---------------------------- MODULE GvfSeriesTrace ----------------------------
(***************************************************************************)
(* C13, series view: what callVariant actually reads for a transcript       *)
(* (VariantRecordPoolOnDisk.__getitem__: the records of every pointer of    *)
(* the transcript, de-duplicated, sorted into transcriptional / intronic /   *)
(* fusion / circRNA slots) against a linear scan of the files.              *)
(* CASES_FILE: array of                                                      *)
(*   [files: [[[tx, rid]]]   every record line of every GVF file, reduced    *)
(*                           to <<transcript, id of its text>> (equal text   *)
(*                           = equal rid, whatever file it is in),           *)
(*    got:   [[tx, [rid]]]   the records the pool handed out per transcript, *)
(*                           mapped back to the ids of their texts           *)
(*                           (0 = a record that is in no file)]              *)
(* Linear scan: the records of transcript t are the distinct record texts    *)
(* that name t, in any file.  Two records that differ in any field (e.g.     *)
(* two insertions on one anchor with different donor segments) are two        *)
(* records; the same line in two files is one.                               *)
(***************************************************************************)
EXTENDS Naturals, Sequences, FiniteSets, TLC, Json, IOUtils
Cases == JsonDeserialize(IOEnv.CASES_FILE)
VARIABLE i
Init == i \in 1..Len(Cases)
Next == FALSE /\ i' = i
C == Cases[i]
Clause(name, ok) == ok \/ PrintT(<<"V", i, name>>)

Scan(t) == UNION {{C.files[f][k][2] : k \in {j \in 1..Len(C.files[f]) : C.files[f][j][1] = t}} : f \in 1..Len(C.files)} \ {0}
TxInFiles == UNION {{C.files[f][k][1] : k \in 1..Len(C.files[f])} : f \in 1..Len(C.files)}
Got(t) == LET S == {k \in 1..Len(C.got) : C.got[k][1] = t} IN
          IF S = {} THEN <<>> ELSE C.got[CHOOSE k \in S : TRUE][2]
GotSet(t) == {Got(t)[k] : k \in 1..Len(Got(t))}

Verdict ==
  /\ Clause("every_transcript_served", \A t \in TxInFiles : Scan(t) # {} => Got(t) # <<>>)
  /\ Clause("no_record_lost", \A t \in TxInFiles : Scan(t) \subseteq GotSet(t))
  /\ Clause("no_record_invented", \A t \in TxInFiles : GotSet(t) \subseteq Scan(t))
  (* information only: the statement speaks of record SETS; a circRNA line present in two files is handed out twice *)
  /\ Clause("info_record_handed_out_twice", \A t \in TxInFiles : Len(Got(t)) = Cardinality(GotSet(t)))
  /\ PrintT(<<"V", i, "done">>)
=============================================================================
