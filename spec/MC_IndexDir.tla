----------------------------- MODULE MC_IndexDir -----------------------------
EXTENDS IndexDir, Json
Depth == MaxOps
(* behaviours for replay: print the history once it has MaxOps operations     *)
PrintHist == Len(hist) < MaxOps \/ PrintT(<<"H", ToJson(hist)>>)
=============================================================================
