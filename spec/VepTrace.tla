-------------------------------- MODULE VepTrace --------------------------------
(* C14: parseVEP and parseREDItools.  CASES_FILE: array of                        *)
(*  [tool |-> "vep", chrom, gene, tx, loc, allele, startNF,                        *)
(*   outcome: "record" | "reject_start" | "reject_stop" | "error", rec]            *)
(*  [tool |-> "redi", gene, txs: [tx], pos (0-based), accepted: [<<ref, alt>>],    *)
(*   records: [[tx (index), start, ref, alt]]]                                     *)
EXTENDS Parsers, TLC, Json, IOUtils
Cases == JsonDeserialize(IOEnv.CASES_FILE)
ToSet(s) == {s[i] : i \in 1..Len(s)}
VARIABLE i
Init == i \in 1..Len(Cases)
Next == FALSE /\ i' = i
C == Cases[i]
Clause(name, ok) == ok \/ PrintT(<<"V", i, name>>)

VepOk ==
  LET ev == VepEvent(C.loc, C.allele)
      kind == VepKind(C.loc, C.allele)
      gs == GeneSeq(C.chrom, C.gene)
      inScope == kind \in {"snv", "deletion", "insertion", "substitution"}
  IN
  (* recorded finding: a single-position multi-base allele (VEP's end-inclusive insertion form) on the    *)
  (* first base of the gene is written with gene position -1                                              *)
  /\ Clause("vep_negative_position_multibase",
       ~(C.outcome = "record" /\ kind = "single_position_multibase" /\ C.rec.start < 0))
  /\ Clause("vep_record_right",
       (C.outcome = "record" /\ ~(kind = "single_position_multibase" /\ C.rec.start < 0))
          => RefOk(gs, C.rec) /\ DenoteSmall(gs, C.rec) = GeneAfter(C.chrom, C.gene, ev))
  /\ Clause("vep_rejection_justified",
       C.outcome \in {"reject_start", "reject_stop"} => TouchesStart(C.tx, ev) \/ BeyondEnd(C.tx, ev))
  /\ Clause("vep_inside_accepted",
       (inScope /\ StrictlyInside(C.tx, ev)) => C.outcome = "record")
  /\ Clause("vep_outside_not_recorded",
       (C.outcome = "record") =>
          ~(BeyondEnd(C.tx, ev) \/ (IF C.tx.strand = 1 THEN FootLo(ev) < TxFirst(C.tx) ELSE FootHi(ev) > TxFirst(C.tx))))
  /\ Clause("vep_no_crash", (inScope /\ InGene(C.gene, ev)) => C.outcome # "error")

(* REDItools: thresholds.  counts = <<A, C, G, T>>; gcov = -1 (DNA coverage not     *)
(* available: skip the check), -2 (column empty) or a number; minFreq = <<num, den>>    *)
BaseIdx4(b) == CASE b = "A" -> 1 [] b = "C" -> 2 [] b = "G" -> 3 [] OTHER -> 4
RediAccepted ==
  LET total == C.counts[1] + C.counts[2] + C.counts[3] + C.counts[4]
      covered == total >= C.minCovRna /\ (C.gcov = -1 \/ (C.gcov >= 0 /\ C.gcov >= C.minCovDna))
  IN IF ~covered THEN {}
     ELSE {C.subs[k] : k \in {j \in 1..Len(C.subs) :
              LET n == C.counts[BaseIdx4(C.subs[j][2])] IN
              n >= C.minCovAlt /\ n * C.minFreq[2] >= C.minFreq[1] * total}}
(* one record per (transcript in which the site is exonic, accepted substitution), written on    *)
(* that transcript's own gene at the gene position of the site                                    *)
RediOk ==
  LET want == {<<k, a>> : k \in {j \in 1..Len(C.txs) : Exonic(C.txs[j], C.pos)}, a \in RediAccepted}
      got == {<<C.records[k].tx, <<C.records[k].ref, C.records[k].alt>>>> : k \in 1..Len(C.records)}
  IN
  /\ Clause("redi_records", got = want /\ Len(C.records) = Cardinality(want))
  /\ Clause("redi_position", \A k \in 1..Len(C.records) :
        /\ C.records[k].gene = C.txs[C.records[k].tx].gene
        /\ C.records[k].start = G2Gene(C.genes[C.records[k].gene], C.pos))

Verdict == (IF C.tool = "vep" THEN VepOk ELSE RediOk) /\ PrintT(<<"V", i, "done">>)
=============================================================================
