INIT Init
NEXT Next
INVARIANT Props
