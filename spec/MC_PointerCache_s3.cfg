CONSTANTS
  Keys = {"k1", "k2", "k3", "k4"}
  AbsentKeys = {"zz"}
  Size = 3
  MaxOps = 6
INIT Init
NEXT Next
INVARIANT AlwaysRight
INVARIANT AbsentFails
INVARIANT Consistent
INVARIANT PrintHist
