INIT TraceInit
NEXT TraceNext
INVARIANT Props
INVARIANT Accepted
