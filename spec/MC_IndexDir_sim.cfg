CONSTANTS
  Params = {1, 2, 3}
  Tampers = {"python", "biopython", "mopepgen_old", "mopepgen_new"}
  MaxOps = 7
INIT Init
NEXT Next
INVARIANT PrintHist
