------------------------- MODULE MC_CallVariantRun -------------------------
(* Bounded instance of CallVariantRun: every skip pattern, every small set *)
(* of failing units, every thread count 1..MaxThreads, both values of      *)
(* --skip-failed, timeouts that walk the retry ladder.                     *)
EXTENDS Naturals, Integers, Sequences, FiniteSets, TLC

CONSTANTS NTX, MaxThreads, MaxFail, MaxInvalid, Rule, CircFall

(* unit layout: tx1 main+fusion, tx2 main+2 circRNA, tx3 main, tx4 circRNA  *)
(* only, tx5 main+fusion+circRNA                                            *)
UnitsAll == <<
  <<"m1", "f1">>, <<"m2", "c2a", "c2b">>, <<"m3">>, <<"c4">>, <<"m5", "f5", "c5">> >>
Units == [t \in 1..NTX |-> UnitsAll[t]]
AllUnits == UNION {{Units[t][i] : i \in 1..Len(Units[t])} : t \in 1..NTX}
Kind == [u \in AllUnits |->
  CASE u \in {"m1", "m2", "m3", "m5"} -> "main"
    [] u \in {"f1", "f5"} -> "fusion"
    [] OTHER -> "circRNA"]
(* peptides 1..12; 2 is shared by m2 and c2a (cross-unit denylist), 9 is    *)
(* invalid (canonical / out of limits), 11 is shared by two transcripts     *)
PepAll == [u \in {"m1","f1","m2","c2a","c2b","m3","c4","m5","f5","c5"} |->
  CASE u = "m1" -> {1, 11} [] u = "f1" -> {3} [] u = "m2" -> {2, 4}
    [] u = "c2a" -> {2, 5} [] u = "c2b" -> {6, 9} [] u = "m3" -> {7, 11}
    [] u = "c4" -> {8} [] u = "m5" -> {10} [] u = "f5" -> {9, 12} [] OTHER -> {10, 12}]
Pep == [u \in AllUnits |-> PepAll[u]]
Weight == [p \in 1..12 |-> IF p \in {4, 7} THEN 2 ELSE IF p = 5 THEN 3 ELSE 1]
Valid == (1..12) \ {9}

TimeoutChoices == { [t \in 1..NTX |-> 0],
                    [t \in 1..NTX |-> IF t = 2 THEN 1 ELSE 0],
                    [t \in 1..NTX |-> IF t = 3 THEN 3 ELSE 0] }
LadderChoices == { <<-1>>, <<3, 2>> }

Configs ==
  { [ ntx |-> NTX, threads |-> th, skipFailed |-> sf, units |-> Units, kind |-> Kind,
      pep |-> Pep, weight |-> Weight, valid |-> Valid, skip |-> sk, invalid |-> iv,
      failing |-> fl, timeouts |-> to, ladder |-> ld, rule |-> Rule, circFall |-> CircFall ] :
    th \in 1..MaxThreads, sf \in BOOLEAN, sk \in SUBSET (1..NTX),
    iv \in {s \in SUBSET (1..NTX) : Cardinality(s) <= MaxInvalid},
    fl \in {s \in SUBSET AllUnits : Cardinality(s) <= MaxFail},
    to \in TimeoutChoices, ld \in LadderChoices }

GoodConfigs == {cf \in Configs : cf.skip \cap cf.invalid = {}}

VARIABLES c, pos, cnt, batch, phase, running, results, ci, table, tally
INSTANCE CallVariantRun WITH Configs <- GoodConfigs
=============================================================================
