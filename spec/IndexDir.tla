------------------------------ MODULE IndexDir ------------------------------
(***************************************************************************)
(* The moPepGen index directory as a state machine (moPepGen/index.py,     *)
(* cli/generate_index.py, cli/update_index.py, cli/common.load_references).*)
(* One action per CLI invocation / library call that touches the directory.*)
(*                                                                         *)
(* Params        abstract cleavage-parameter sets (pool of p = tag p)      *)
(* nonempty      the directory holds at least one file                     *)
(* hasMeta       metadata.json exists                                      *)
(* ver           the set of version fields of metadata.json (python,       *)
(*               biopython, mopepgen) that do NOT satisfy                  *)
(*               MetaVersion.is_valid; {} = the index is valid             *)
(* pools         metadata.json's canonical_pools: sequence of [idx, p]     *)
(* files         existing pool files: idx -> tag of the parameters whose   *)
(*               pool the file holds                                       *)
(* refs          genome / proteome / annotation(+idx) / coding-tx present  *)
(* annoLink      annotation.gtf is a symbolic link                         *)
(* last          what the last operation returned (observation)            *)
(* hist          history of operations with their results (for replay)     *)
(***************************************************************************)
EXTENDS Naturals, Integers, Sequences, FiniteSets, TLC

CONSTANTS Params, Tampers, MaxOps

VARIABLES nonempty, hasMeta, ver, pools, files, refs, annoLink, last, hist
state == <<nonempty, hasMeta, ver, pools, files, refs, annoLink>>
vars == <<nonempty, hasMeta, ver, pools, files, refs, annoLink, last, hist>>

None == [op |-> "none", p |-> 0, force |-> FALSE, symlink |-> FALSE, status |-> "ok", value |-> 0]

Init ==
  /\ nonempty = FALSE /\ hasMeta = FALSE /\ ver = {} /\ pools = <<>>
  /\ files = <<>> /\ refs = FALSE /\ annoLink = FALSE /\ last = None /\ hist = <<>>

Idx(ps) == {ps[i].idx : i \in 1..Len(ps)}
Find(ps, p) == {i \in 1..Len(ps) : ps[i].p = p}
MaxIdx(ps) == IF ps = <<>> THEN 0 ELSE CHOOSE m \in Idx(ps) : \A x \in Idx(ps) : x <= m
Restrict(f, D) == [x \in D |-> f[x]]

(* the operation's result plus the directory state it leaves behind           *)
Post == [pools |-> pools', files |-> files', hasMeta |-> hasMeta', ver |-> ver', refs |-> refs',
         nonempty |-> nonempty']
Record(r) == /\ last' = r /\ hist' = Append(hist, [r |-> r, post |-> Post])
Res(op, p, force, symlink, status, value) ==
  [op |-> op, p |-> p, force |-> force, symlink |-> symlink, status |-> status, value |-> value]

(* metadata as IndexDir.__init__ sees it: loaded from disk, or fresh         *)
MemPools == IF hasMeta THEN pools ELSE <<>>
MemVer == IF hasMeta /\ ver # {} THEN "bad" ELSE "ok"

(* wipe_canonical_peptides removes the listed files in order and stops with  *)
(* FileNotFoundError at the first one that is missing                        *)
RECURSIVE WipeUpTo(_, _, _)
WipeUpTo(ps, f, i) ==
  IF i > Len(ps) THEN [files |-> f, crashed |-> FALSE]
  ELSE IF ps[i].idx \notin DOMAIN f THEN [files |-> f, crashed |-> TRUE]
  ELSE WipeUpTo(ps, Restrict(f, DOMAIN f \ {ps[i].idx}), i + 1)

Generate(p, force, symlink) ==
  /\ Len(hist) < MaxOps
  /\ IF nonempty /\ ~force THEN
       /\ UNCHANGED state
       /\ Record(Res("generate", p, force, symlink, "exit", 0))
     ELSE
       LET w == IF nonempty THEN WipeUpTo(MemPools, files, 1) ELSE [files |-> files, crashed |-> FALSE]
           \* create_gtf_copy: os.symlink onto an existing path, or copy2 onto a link to the same file
           gtfCrash == (symlink /\ refs) \/ (~symlink /\ refs /\ annoLink)
       IN IF w.crashed THEN
            /\ files' = w.files /\ nonempty' = TRUE
            /\ UNCHANGED <<hasMeta, ver, pools, refs, annoLink>>
            /\ Record(Res("generate", p, force, symlink, "error", 0))
          ELSE IF gtfCrash THEN
            \* pools wiped, genome/proteome rewritten, metadata.json still the old one
            /\ files' = w.files /\ nonempty' = TRUE
            /\ UNCHANGED <<hasMeta, ver, pools, refs, annoLink>>
            /\ Record(Res("generate", p, force, symlink, "error", 0))
          ELSE
            /\ nonempty' = TRUE /\ hasMeta' = TRUE /\ ver' = {}
            /\ pools' = <<[idx |-> 1, p |-> p]>>
            /\ files' = (1 :> p) @@ Restrict(w.files, DOMAIN w.files \ {1})
            /\ refs' = TRUE /\ annoLink' = symlink
            /\ Record(Res("generate", p, force, symlink, "ok", 0))

Update(p, force) ==
  /\ Len(hist) < MaxOps
  /\ LET ex == Find(MemPools, p) IN
     IF MemVer # "ok" THEN
       UNCHANGED state /\ Record(Res("update", p, force, FALSE, "error", 0))
     ELSE IF ex # {} /\ ~force THEN
       UNCHANGED state /\ Record(Res("update", p, force, FALSE, "exit", 0))
     ELSE IF ~refs THEN
       UNCHANGED state /\ Record(Res("update", p, force, FALSE, "error", 0))
     ELSE IF ex # {} THEN       \* override: rewrite the registered file, metadata untouched
       LET i == CHOOSE x \in ex : \A y \in ex : x <= y IN
       /\ files' = (MemPools[i].idx :> p) @@ Restrict(files, DOMAIN files \ {MemPools[i].idx})
       /\ UNCHANGED <<nonempty, hasMeta, ver, pools, refs, annoLink>>
       /\ Record(Res("update", p, force, FALSE, "ok", 0))
     ELSE
       LET k == MaxIdx(MemPools) + 1 IN
       /\ pools' = Append(MemPools, [idx |-> k, p |-> p])
       /\ files' = (k :> p) @@ Restrict(files, DOMAIN files \ {k})
       /\ hasMeta' = TRUE /\ ver' = (IF hasMeta THEN ver ELSE {}) /\ nonempty' = TRUE
       /\ UNCHANGED <<refs, annoLink>>
       /\ Record(Res("update", p, force, FALSE, "ok", 0))

(* load_references(index_dir, cleavage params p): pool, genome, annotation,  *)
(* proteome                                                                  *)
Load(p) ==
  /\ Len(hist) < MaxOps
  /\ UNCHANGED state
  /\ LET ex == Find(MemPools, p) IN
     IF MemVer # "ok" \/ ex = {} THEN Record(Res("load", p, FALSE, FALSE, "error", 0))
     ELSE LET i == CHOOSE x \in ex : \A y \in ex : x <= y IN
          IF MemPools[i].idx \notin DOMAIN files \/ ~refs
          THEN Record(Res("load", p, FALSE, FALSE, "error", 0))
          ELSE Record(Res("load", p, FALSE, FALSE, "ok", files[MemPools[i].idx]))

(* somebody edits the versions recorded in metadata.json                     *)
Tamper(f) ==
  /\ Len(hist) < MaxOps /\ hasMeta
  /\ ver' = CASE f = "mopepgen_new" -> ver \ {"mopepgen"}     \* a newer moPepGen version is accepted
              [] f = "mopepgen_old" -> ver \cup {"mopepgen"}   \* older than the minimal version
              [] OTHER -> ver \cup {f}                         \* python / biopython must match exactly
  /\ UNCHANGED <<nonempty, hasMeta, pools, files, refs, annoLink>>
  /\ Record(Res("tamper", 0, FALSE, FALSE, f, 0))

Next ==
  \/ \E p \in Params, force \in BOOLEAN, symlink \in BOOLEAN : Generate(p, force, symlink)
  \/ \E p \in Params, force \in BOOLEAN : Update(p, force)
  \/ \E p \in Params : Load(p)
  \/ \E f \in Tampers : Tamper(f)

Spec == Init /\ [][Next]_vars

-----------------------------------------------------------------------------
(* C12 *)
(* a successful load returns the pool computed for the requested parameters  *)
LoadRight == (last.op = "load" /\ last.status = "ok") => last.value = last.p
(* ... and only from an index with valid versions and complete references     *)
LoadGuarded == (last.op = "load" /\ last.status = "ok") => (MemVer = "ok" /\ refs)
(* every registered pool whose file exists holds its own parameters' pool     *)
Faithful == \A i \in 1..Len(pools) : pools[i].idx \in DOMAIN files => files[pools[i].idx] = pools[i].p
(* registrations: strictly increasing indices, one per parameter set          *)
Registry ==
  /\ \A i, j \in 1..Len(pools) : i < j => pools[i].idx < pools[j].idx
  /\ \A i, j \in 1..Len(pools) : i # j => pools[i].p # pools[j].p
(* adding or refreshing a pool never alters another parameter set's file      *)
UpdateKeeps ==
  [][last'.op = "update" => \A k \in DOMAIN files : k \in DOMAIN files' /\ files'[k] = files[k]]_vars
(* an index with invalid versions is never used                               *)
BadVersionRejected ==
  [][(last'.op \in {"load", "update"} /\ MemVer = "bad") => last'.status = "error"]_vars

View == <<nonempty, hasMeta, ver, pools, files, refs, annoLink, last>>
=============================================================================
