------------------------------ MODULE MC_Peptides ------------------------------
(***************************************************************************)
(* Design-level model check of the definitional layer (no implementation   *)
(* involved): every subset of a candidate variant pool on small designed    *)
(* transcripts x a lattice of configurations is a TLC state; the            *)
(* invariants are the relations between Complete (what C01 requires) and    *)
(* Sound (what C02 allows) that the conformance checks rely on, and the     *)
(* spec-level part of C05 (monotonicity).                                   *)
(***************************************************************************)
EXTENDS Peptides, TLC

S(str) == str   \* readability: sequences are written as tuples of one-character strings below

(* T1: coding, + strand view.  5'UTR GCC, ATG GCT AAA TGG CGT GAT TGA(Sec) TTT AAG GAA CGC TAA GGC *)
T1 == [seq |-> <<"G","C","C","A","T","G","G","C","T","A","A","A","T","G","G","C","G","T","G","A","T","T","G","A",
                 "T","T","T","A","A","G","G","A","A","C","G","C","T","A","A","G","G","C">>,
       coding |-> TRUE, orfStart |-> 3, orfEnd |-> 36, startNF |-> FALSE, endNF |-> FALSE, sec |-> {21}]
(* candidate variants on T1: SNVs (one next to the Sec codon, an adjacent pair), an insertion, a    *)
(* deletion, one hitting the stop codon                                                              *)
P1 == { [start |-> 10, end |-> 11, ref |-> <<"A">>, alt |-> <<"G">>, id |-> "a"],
        [start |-> 11, end |-> 12, ref |-> <<"A">>, alt |-> <<"C">>, id |-> "b"],
        [start |-> 20, end |-> 21, ref |-> <<"T">>, alt |-> <<"C">>, id |-> "c"],
        [start |-> 13, end |-> 14, ref |-> <<"G">>, alt |-> <<"G","A","A">>, id |-> "d"],
        [start |-> 26, end |-> 28, ref |-> <<"T","A">>, alt |-> <<"T">>, id |-> "e"] }
(* T2: non-coding, two ATGs in different frames                                                      *)
T2 == [seq |-> <<"C","A","T","G","A","A","A","C","G","T","A","T","G","G","G","C","A","A","G","T","A","A","C","C","G","T","T","G","A","C">>,
       coding |-> FALSE, orfStart |-> 0, orfEnd |-> 0, startNF |-> FALSE, endNF |-> FALSE, sec |-> {}]
P2 == { [start |-> 5, end |-> 6, ref |-> <<"A">>, alt |-> <<"G">>, id |-> "a"],
        [start |-> 19, end |-> 20, ref |-> <<"T">>, alt |-> <<"C">>, id |-> "b"],
        [start |-> 20, end |-> 21, ref |-> <<"A">>, alt |-> <<"G">>, id |-> "c"],
        [start |-> 8, end |-> 9, ref |-> <<"G">>, alt |-> <<"G","T">>, id |-> "d"],
        [start |-> 14, end |-> 17, ref |-> <<"G","C","A">>, alt |-> <<"G">>, id |-> "e"] }

Cases == <<[tx |-> T1, pool |-> P1], [tx |-> T2, pool |-> P2]>>
Cfgs == {[rule |-> "trypsin", exc |-> e, misc |-> m, minLen |-> lo, maxLen |-> hi, minMw5 |-> mw, maxAdj |-> k, sect |-> s, w2f |-> w] :
           e \in {""}, m \in 0..1, lo \in {3}, hi \in {8}, mw \in {5}, k \in {0, 2},
           s \in BOOLEAN, w \in BOOLEAN}

VARIABLES c, V, cfg
vars == <<c, V, cfg>>
Init == c \in 1..Len(Cases) /\ V \in SUBSET Cases[c].pool /\ cfg \in Cfgs
Next == UNCHANGED vars

Tx == Cases[c].tx
Cpl(W, g) == VariantPeptides(Tx, W, g, {})
Snd(W, g) == VariantPeptidesSound(Tx, W, g, {})

CompleteInSound == Cpl(V, cfg) \subseteq Snd(V, cfg)
(* one more variant record only adds *)
MonoVariants == \A x \in Cases[c].pool \ V : Cpl(V, cfg) \subseteq Cpl(V \cup {x}, cfg) /\ Snd(V, cfg) \subseteq Snd(V \cup {x}, cfg)
(* relaxing a limit only adds, and what it adds lies outside the stricter limit *)
MonoMisc == Cpl(V, cfg) \subseteq Cpl(V, [cfg EXCEPT !.misc = @ + 1]) /\ Snd(V, cfg) \subseteq Snd(V, [cfg EXCEPT !.misc = @ + 1])
MonoMinLen == /\ Cpl(V, cfg) \subseteq Cpl(V, [cfg EXCEPT !.minLen = @ - 1])
              /\ \A q \in Cpl(V, [cfg EXCEPT !.minLen = @ - 1]) \ Cpl(V, cfg) : Len(q) < cfg.minLen
MonoMaxLen == /\ Cpl(V, cfg) \subseteq Cpl(V, [cfg EXCEPT !.maxLen = @ + 2])
              /\ \A q \in Cpl(V, [cfg EXCEPT !.maxLen = @ + 2]) \ Cpl(V, cfg) : Len(q) > cfg.maxLen
MonoMinMw == Cpl(V, cfg) \subseteq Cpl(V, [cfg EXCEPT !.minMw5 = 5])
(* switching on an alt-translation flag only adds to what C02 allows ...                  *)
SoundMonoFlags == /\ Snd(V, [cfg EXCEPT !.sect = FALSE]) \subseteq Snd(V, [cfg EXCEPT !.sect = TRUE])
                  /\ Snd(V, [cfg EXCEPT !.w2f = FALSE]) \subseteq Snd(V, [cfg EXCEPT !.w2f = TRUE])
(* ... and the only peptides it can remove from what C01 requires are forms of the         *)
(* unmodified transcript under that flag (the recorded C05 findings, at design level)      *)
CompleteFlagLoss ==
  /\ Cpl(V, [cfg EXCEPT !.sect = FALSE]) \ Cpl(V, [cfg EXCEPT !.sect = TRUE]) \subseteq HapSect(Tx, {}, [cfg EXCEPT !.sect = TRUE])
  /\ Cpl(V, [cfg EXCEPT !.w2f = FALSE]) \ Cpl(V, [cfg EXCEPT !.w2f = TRUE])
        \subseteq W2FAll(RefPeptides(Tx, cfg) \cup HapSect(Tx, {}, cfg), cfg)
(* the adjacency option only adds haplotypes *)
MonoAdj == Cpl(V, [cfg EXCEPT !.maxAdj = 0]) \subseteq Cpl(V, [cfg EXCEPT !.maxAdj = 2])
(* nothing required is a digestion product of the unmodified transcript *)
NoReference == Cpl(V, cfg) \cap RefPeptides(Tx, cfg) = {}
=============================================================================
