INIT Init
NEXT Next
INVARIANT Verdict
