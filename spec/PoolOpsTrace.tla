----------------------------- MODULE PoolOpsTrace -----------------------------
(* C18: recorded runs of splitFasta / summarizeFasta / mergeFasta /           *)
(* encodeFasta checked against FastaOps.  CASES_FILE: array of cases, each    *)
(* with a field op.                                                           *)
EXTENDS FastaOps, TLC, Json, IOUtils
Cases == JsonDeserialize(IOEnv.CASES_FILE)
ToSet(s) == {s[i] : i \in 1..Len(s)}
VARIABLE i
Init == i \in 1..Len(Cases)
Next == FALSE /\ i' = i
C == Cases[i]
Clause(name, ok) == ok \/ PrintT(<<"V", i, name>>)

PepOf(r) == [seq |-> r.seq, entries |-> r.entries]
OptsOf(o) == [order |-> [k \in 1..Len(o.order) |-> ToSet(o.order[k])],
              group |-> o.group, maxGroups |-> o.maxGroups,
              additional |-> [k \in 1..Len(o.additional) |-> ToSet(o.additional[k])]]
GvfsOf(g) == [k \in 1..Len(g) |-> [source |-> g[k].source, recs |-> ToSet(g[k].recs)]]
Labels(p) == {p.entries[k].label : k \in 1..Len(p.entries)}

(* -- split ------------------------------------------------------------------ *)
InSeqs == {C.pool[k].seq : k \in 1..Len(C.pool)}
OutRecs == UNION {{<<d, j>> : j \in 1..Len(C.outputs[d].peptides)} : d \in 1..Len(C.outputs)}
OutOf(dj) == C.outputs[dj[1]].peptides[dj[2]]
SplitOk ==
  LET opts == OptsOf(C.opts)  gv == GvfsOf(C.gvfs) IN
  /\ Clause("split_exactly_one",
       \A k \in 1..Len(C.pool) : Cardinality({dj \in OutRecs : OutOf(dj).seq = C.pool[k].seq}) = 1)
  /\ Clause("split_nothing_new", \A dj \in OutRecs : OutOf(dj).seq \in InSeqs)
  /\ Clause("split_entries_kept",
       \A k \in 1..Len(C.pool) : \A dj \in OutRecs :
          OutOf(dj).seq = C.pool[k].seq => ToSet(OutOf(dj).labels) = Labels(PepOf(C.pool[k]))
                                           /\ Len(OutOf(dj).labels) = Len(C.pool[k].entries))
  /\ Clause("split_right_database",
       \A k \in 1..Len(C.pool) : \A dj \in OutRecs :
          OutOf(dj).seq = C.pool[k].seq =>
             [kind |-> C.outputs[dj[1]].kind, names |-> C.outputs[dj[1]].names] \in SplitKeys(opts, gv, PepOf(C.pool[k])))

(* -- summarize --------------------------------------------------------------- *)
RowTotal(names) == LET R == {k \in 1..Len(C.rows) : C.rows[k].names = names}
                   IN IF R = {} THEN 0 ELSE C.rows[CHOOSE k \in R : TRUE].total
RECURSIVE SumRows(_)
SumRows(k) == IF k = 0 THEN 0 ELSE C.rows[k].total + SumRows(k - 1)
SummaryOk ==
  LET opts == OptsOf(C.opts)  gv == GvfsOf(C.gvfs)
      unamb == {k \in 1..Len(C.pool) : Cardinality(SummaryKeys(opts, gv, PepOf(C.pool[k]))) = 1}
      keyOf(k) == (CHOOSE x \in SummaryKeys(opts, gv, PepOf(C.pool[k])) : TRUE).names
  IN
  /\ Clause("summary_adds_up", C.complete => SumRows(Len(C.rows)) = Len(C.pool))
  /\ Clause("summary_rows",
       Cardinality(unamb) = Len(C.pool) =>
         \A r \in 1..Len(C.rows) : C.rows[r].total = Cardinality({k \in unamb : keyOf(k) = C.rows[r].names}))
  /\ Clause("summary_matches_split",     \* sizes of the databases splitFasta made under the same options
       \A d \in 1..Len(C.splitSizes) : RowTotal(C.splitSizes[d].names) = C.splitSizes[d].size)

(* -- merge -------------------------------------------------------------------- *)
MergeOk ==
  LET ins == UNION {{PepOf(C.inputs[f][k]) : k \in 1..Len(C.inputs[f])} : f \in 1..Len(C.inputs)}
      outs == {C.merged[k] : k \in 1..Len(C.merged)} IN
  /\ Clause("merge_union_of_sequences", {o.seq : o \in outs} = SeqsOf(ins))
  /\ Clause("merge_each_once", Cardinality({o.seq : o \in outs}) = Len(C.merged))
  /\ Clause("merge_union_of_entries",
       \A o \in outs : ToSet(o.labels) = {e.label : e \in EntriesOf(ins, o.seq)})

(* -- encode ------------------------------------------------------------------- *)
EncodeOk ==
  LET dict == [k \in 1..Len(C.dict) |-> C.dict[k]]
      Lookup(id) == LET K == {k \in 1..Len(dict) : dict[k].id = id} IN
                    IF K = {} THEN "<missing>" ELSE dict[CHOOSE k \in K : TRUE].header
  IN
  /\ Clause("encode_same_records", Len(C.encoded) = Len(C.original))
  /\ Clause("encode_restores",
       \A k \in 1..Len(C.original) :
          /\ C.encoded[k].seq = C.original[k].seq
          /\ C.encoded[k].decoy = C.original[k].decoy
          /\ Lookup(C.encoded[k].id) = C.original[k].header)
  /\ Clause("encode_dict_unique", \A a, b \in 1..Len(C.dict) : a # b => C.dict[a].id # C.dict[b].id)

Verdict ==
  /\ CASE C.op = "split" -> SplitOk
       [] C.op = "summarize" -> SummaryOk
       [] C.op = "merge" -> MergeOk
       [] C.op = "encode" -> EncodeOk
  /\ PrintT(<<"V", i, "done">>)
=============================================================================
