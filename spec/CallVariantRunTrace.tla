------------------------ MODULE CallVariantRunTrace ------------------------
(* Trace validation of real callVariant runs against CallVariantRun.        *)
(* TRACE_FILE (environment) is a JSON array of runs.  Each run carries the  *)
(* configuration the harness established (units and per-unit peptide sets   *)
(* from fault-free reference runs, the injected faults, thread count, ...)  *)
(* and the events the guarded hooks of the parent process recorded:         *)
(*   gather(tx, dispatched)  flush(batch)  collect(tx, flags, peptides,     *)
(*   n_table)  finish(table, tally)  abort                                  *)
(* Every event must be the corresponding action of the specification with   *)
(* the logged values; worker returns and loop bookkeeping are silent steps. *)
EXTENDS Naturals, Integers, Sequences, FiniteSets, TLC, Json, IOUtils

Runs == JsonDeserialize(IOEnv.TRACE_FILE)

ToSet(s) == {s[i] : i \in 1..Len(s)}

AllPeps(r) == UNION {ToSet(r.pep[u]) : u \in DOMAIN r.pep}

CfgOf(r) ==
  [ ntx |-> r.ntx, threads |-> r.threads, skipFailed |-> r.skipFailed,
    units |-> r.units, kind |-> r.kind,
    pep |-> [u \in DOMAIN r.pep |-> ToSet(r.pep[u])],
    weight |-> [p \in AllPeps(r) |-> 0],
    valid |-> ToSet(r.valid), skip |-> ToSet(r.skip), invalid |-> ToSet(r.invalid),
    failing |-> ToSet(r.failing), timeouts |-> [t \in 1..r.ntx |-> 0],
    ladder |-> <<-1>>, rule |-> "batch", circFall |-> FALSE ]

VARIABLES c, pos, cnt, batch, phase, running, results, ci, table, tally, tid, l
S == INSTANCE CallVariantRun WITH Configs <- {}

svars == <<c, pos, cnt, batch, phase, running, results, ci, table, tally>>
Ev == Runs[tid].events

TraceInit ==
  /\ tid \in 1..Len(Runs)
  /\ l = 1
  /\ c = CfgOf(Runs[tid])
  /\ pos = 0 /\ cnt = 0 /\ batch = <<>> /\ phase = "loop"
  /\ running = {} /\ results = <<>> /\ ci = 0 /\ table = {}
  /\ tally = [S!Tally0 EXCEPT !.total = c.ntx]

IsEv(name) == l <= Len(Ev) /\ Ev[l].event = name /\ l' = l + 1 /\ tid' = tid
Silent == l' = l /\ tid' = tid

TGather ==
  /\ IsEv("gather") /\ S!Gather
  /\ Ev[l].tx = pos'
  /\ Ev[l].dispatched = (pos' \notin (c.skip \cup c.invalid))

TFlush ==
  /\ IsEv("flush") /\ S!Flush
  /\ Ev[l].batch = batch

TCollect ==
  /\ IsEv("collect") /\ S!CollectOne
  /\ Ev[l].tx = S!Dispatched[ci]
  /\ ToSet(Ev[l].peptides) = results[Ev[l].tx].peps
  /\ Ev[l].flags = results[Ev[l].tx].flags
  /\ Ev[l].n_table = Cardinality(table')

TFinish ==
  /\ IsEv("finish") /\ S!Finish
  /\ ToSet(Ev[l].table) = table
  /\ Ev[l].n_total = tally.total
  /\ Ev[l].n_processed = tally.processed
  /\ Ev[l].n_invalid = tally.invalid
  /\ Ev[l].n_failed_main = tally.failMain
  /\ Ev[l].n_failed_fusion = tally.failFusion
  /\ Ev[l].n_failed_circ = tally.failCirc
  /\ Ev[l].n_total_peptides = tally.totalPeptides
  /\ Ev[l].fasta_ok

TAbort ==
  /\ IsEv("abort") /\ phase = "aborted" /\ UNCHANGED svars
  /\ ~Ev[l].fasta_ok        \* no FASTA claiming success

TSilent ==
  /\ Silent
  /\ \/ S!NoFlush \/ (\E t \in 1..c.ntx : S!WorkerDone(t))
     \/ S!StartCollect \/ S!EndCollect \/ S!CollectCrashed
     \/ (S!Gather /\ phase' = "aborted")      \* loading an unusable variant series raises before the gather hook logs

TraceNext == TGather \/ TFlush \/ TCollect \/ TFinish \/ TAbort \/ TSilent

(* properties of the specification, evaluated at every step of the trace;   *)
(* a failing clause is reported as the verdict of that trace and the        *)
(* exploration of the other traces continues                                *)
Clause(name, ok) == ok \/ PrintT(<<"V", tid, name>>)
Props ==
  /\ Clause("FinishedComplete", S!FinishedComplete)
  /\ Clause("FinishedDrained", S!FinishedDrained)
  /\ Clause("FinishedAllowed", S!FinishedAllowed)
  /\ Clause("AbortJustified", S!AbortJustified)
  /\ Clause("NeverInvents", S!NeverInvents)
  /\ Clause("TallyOK", S!TallyOK)
  /\ Clause("BatchBound", S!BatchBound)

(* verdicts: a trace is accepted when every line has been consumed          *)
Accepted == (l = Len(Ev) + 1) => PrintT(<<"V", tid, "ok">>)
Progress == PrintT(<<"P", tid, l, phase, pos>>)
=============================================================================
