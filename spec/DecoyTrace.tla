------------------------------- MODULE DecoyTrace -------------------------------
(* C20: decoyFasta.  CASES_FILE: array of                                        *)
(*  [targets: [[header, seq]], opts: [method, rule ("" = none), keepN, keepC,     *)
(*   pattern (residues never moved), decoyString, position, order, seeded],       *)
(*   output: [[header, seq]], rerun: [[header, seq]] (same seed again),            *)
(*   permuted: [[header, seq]] (same seed, input records in another order)]        *)
EXTENDS Cleavage, TLC, Json, IOUtils
Cases == JsonDeserialize(IOEnv.CASES_FILE)
ToSet(s) == {s[i] : i \in 1..Len(s)}
VARIABLE i
Init == i \in 1..Len(Cases)
Next == FALSE /\ i' = i
C == Cases[i]
O == C.opts
Clause(name, ok) == ok \/ PrintT(<<"V", i, name>>)

DecoyHeader(h) == IF O.position = "prefix" THEN O.decoyString \o h ELSE h \o O.decoyString
IsDecoyRec(r) == \E t \in ToSet(C.targets) : r.header = DecoyHeader(t.header)
TargetIdx == {k \in 1..Len(C.output) : \E t \in ToSet(C.targets) : C.output[k].header = t.header /\ ~IsDecoyRec(C.output[k])}
DecoyIdx == {k \in 1..Len(C.output) : IsDecoyRec(C.output[k])}

Count(s, a) == Cardinality({k \in 1..Len(s) : s[k] = a})
Permutation(a, b) == Len(a) = Len(b) /\ \A x \in ToSet(a) \cup ToSet(b) : Count(a, x) = Count(b, x)

(* positions (1-based) that must not move                                            *)
TermFixed(s) == (IF O.keepN THEN {1} ELSE {}) \cup (IF O.keepC THEN {Len(s)} ELSE {})
PatternFixed(s) == {k \in 1..Len(s) : s[k] \in ToSet(O.pattern)}
(* "the residue at the site" is P1 for enzymes that cut C-terminal to their specificity residue; for  *)
(* N-terminal cutters (asp-n, lysn, ...) it is ambiguous and the clause is not evaluated                *)
CTermCutters == {"trypsin", "lysc", "arg-c", "clostripain", "cnbr", "formic acid", "glutamyl endopeptidase",
                 "bnps-skatole", "iodosobenzoic acid", "proteinase k", "chymotrypsin high specificity",
                 "chymotrypsin low specificity"}
EnzymeFixed(s) == IF O.rule \notin CTermCutters THEN {} ELSE {k \in Sites(O.rule, "", s) : k <= Len(s)}   \* the residue P1 of each site
Fixed(s) == TermFixed(s) \cup PatternFixed(s) \cup EnzymeFixed(s)

Keeps(t, d, F) == \A k \in F : d[k] = t[k]
RECURSIVE SortedSeq(_)
SortedSeq(T) == IF T = {} THEN <<>> ELSE LET m == CHOOSE x \in T : \A y \in T : x <= y IN <<m>> \o SortedSeq(T \ {m})
ReversalOf(t, F) ==
  LET free == SortedSeq((1..Len(t)) \ F)
      n == Len(free)
  IN [k \in 1..Len(t) |-> IF k \in F THEN t[k]
                          ELSE LET j == CHOOSE x \in 1..n : free[x] = k IN t[free[n + 1 - j]]]

DecoyOf(t) == {k \in DecoyIdx : C.output[k].header = DecoyHeader(t.header)}
Recs(f) == {<<f[k].header, f[k].seq>> : k \in 1..Len(f)}
DistinctSeqs == \A a, b \in 1..Len(C.targets) : a # b => C.targets[a].seq # C.targets[b].seq

Verdict ==
  /\ Clause("record_count", Len(C.output) = 2 * Len(C.targets))
  /\ Clause("targets_unchanged", \A t \in ToSet(C.targets) : \E k \in TargetIdx : C.output[k].header = t.header /\ C.output[k].seq = t.seq)
  /\ Clause("one_decoy_per_target", \A t \in ToSet(C.targets) : Cardinality(DecoyOf(t)) >= 1 /\ Cardinality(DecoyIdx) = Len(C.targets))
  /\ Clause("rearrangement", \A t \in ToSet(C.targets) : \E k \in DecoyOf(t) : Permutation(t.seq, C.output[k].seq))
  /\ Clause("termini_and_listed_residues_fixed",
       \A t \in ToSet(C.targets) : \E k \in DecoyOf(t) : Permutation(t.seq, C.output[k].seq) /\ Keeps(t.seq, C.output[k].seq, TermFixed(t.seq) \cup PatternFixed(t.seq)))
  /\ Clause("enzyme_sites_fixed",
       \A t \in ToSet(C.targets) : \E k \in DecoyOf(t) : Permutation(t.seq, C.output[k].seq) /\ Keeps(t.seq, C.output[k].seq, EnzymeFixed(t.seq)))
  /\ Clause("reverse_is_reversal",
       (O.method = "reverse" /\ O.rule = "") =>
          \A t \in ToSet(C.targets) : \E k \in DecoyOf(t) : C.output[k].seq = ReversalOf(t.seq, Fixed(t.seq)))
  /\ Clause("order",
       CASE O.order = "juxtaposed" -> \A k \in 1..Len(C.output) :
                                          /\ (k % 2 = 1) = (k \in TargetIdx)
                                          /\ (k % 2 = 1 => C.output[k + 1].header = DecoyHeader(C.output[k].header))
         [] O.order = "target_first" -> \A a \in TargetIdx : \A b \in DecoyIdx : a < b
         [] OTHER -> \A a \in TargetIdx : \A b \in DecoyIdx : b < a)
  /\ Clause("reproducible", O.seeded => C.rerun = C.output)
  /\ Clause("order_independent", (O.seeded /\ DistinctSeqs) => Recs(C.permuted) = Recs(C.output))
  /\ PrintT(<<"V", i, "done">>)
=============================================================================
