------------------------------- MODULE AltOracle -------------------------------
(* C08 / C09: FASTA of callNovelORF / callAltTranslation against the            *)
(* definitional sets.  CASES_FILE: array of                                     *)
(*  [kind |-> "novel", seqs: [selected transcript sequences], cfg, proteome,    *)
(*   observed, orfs: [[tx (index into seqs), start, end, seq]]]                  *)
(*  [kind |-> "alt", txs: [coding transcripts], cfg, proteome, observed]        *)
EXTENDS Peptides, TLC, Json, IOUtils
Cases == JsonDeserialize(IOEnv.CASES_FILE)
ToSet(s) == {s[i] : i \in 1..Len(s)}
VARIABLE i
Init == i \in 1..Len(Cases)
Next == FALSE /\ i' = i
C == Cases[i]
Canonical == CanonicalPool(C.proteome, C.cfg)
TxOf(r) == [seq |-> r.seq, coding |-> r.coding, orfStart |-> r.orfStart, orfEnd |-> r.orfEnd,
            startNF |-> r.startNF, endNF |-> r.endNF, sec |-> ToSet(r.sec)]

Expected ==
  IF C.kind = "novel" THEN UNION {NovelOrfTx(C.seqs[k], C.cfg, Canonical) : k \in 1..Len(C.seqs)}
  ELSE UNION {AltTransTx(TxOf(C.txs[k]), C.cfg, Canonical) : k \in 1..Len(C.txs)}

(* ORF FASTA of callNovelORF: each listed ORF starts at an ATG and its sequence   *)
(* is the translation up to the next stop / transcript end, at the listed coords   *)
OrfOk(o) ==
  LET s == C.seqs[o.tx]  t == OrfOf(s, o.start, {}) IN
  /\ IsStart(s, o.start)
  /\ o.seq = t.pep
  /\ o.end = o.start + 3 * Len(t.pep)
OrfsOk == C.kind = "novel" => \A k \in 1..Len(C.orfs) : OrfOk(C.orfs[k])

Verdict ==
  LET exp == Expected  obs == ToSet(C.observed) IN
  /\ (OrfsOk \/ PrintT(<<"V", i, "orf_fasta">>))
  /\ IF exp = obs THEN PrintT(<<"V", i, "ok", Cardinality(exp)>>)
     ELSE PrintT(<<"V", i, "diff", "missing", exp \ obs, "extra", obs \ exp>>)
=============================================================================
