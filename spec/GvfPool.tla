-------------------------------- MODULE GvfPool --------------------------------
(***************************************************************************)
(* GVF files on disk, their byte-range indices and the per-transcript      *)
(* access path (seqvar/GVFIndex.py, VariantRecordPoolOnDisk.py,            *)
(* cli/index_gvf.py).                                                      *)
(*   files[f]   content of GVF file f: sequence of records, each reduced   *)
(*              to <<transcript id, record id>>                            *)
(*   rev[f]     content revision (changes with every edit)                 *)
(*   idx[f]     0 = no .idx file, else the revision the .idx was made from *)
(*   ptrs[f]    the pointer list stored in the .idx file                   *)
(*   pool       "closed" | "open" | "error"                                *)
(*   table      per-transcript pointer table of the opened pool:           *)
(*              sequence of <<f, from, to>> record ranges (1-based, incl.) *)
(***************************************************************************)
EXTENDS Naturals, Sequences, FiniteSets, TLC

CONSTANTS Files, Tx, RecIds, MaxLen, MaxOps

VARIABLES files, rev, idx, ptrs, pool, table, nops, last
vars == <<files, rev, idx, ptrs, pool, table, nops, last>>

(* one pointer per maximal run of equal transcript ids: <<tx, from, to>>        *)
RECURSIVE Runs(_, _)
Runs(s, from) ==
  IF from > Len(s) THEN <<>>
  ELSE LET same == {j \in from..Len(s) : \A k \in from..j : s[k][1] = s[from][1]}
           to == CHOOSE j \in same : \A k \in same : k <= j
       IN <<<<s[from][1], from, to>>>> \o Runs(s, to + 1)
Pointers(s) == Runs(s, 1)

Scan(fs, t) == \* linear scan: bag of record ids of transcript t over all files, as a set of <<f, position>>
  {<<f, k>> : f \in Files, k \in 1..MaxLen} \cap
  {fk \in Files \X (1..MaxLen) : fk[2] <= Len(fs[fk[1]]) /\ fs[fk[1]][fk[2]][1] = t}

Init ==
  /\ files = [f \in Files |-> <<>>] /\ rev = [f \in Files |-> 0] /\ idx = [f \in Files |-> 0]
  /\ ptrs = [f \in Files |-> <<>>] /\ pool = "closed" /\ table = <<>> /\ nops = 0
  /\ last = [op |-> "none"]

Step == nops < MaxOps /\ nops' = nops + 1

(* a parser appends a record to a file (files are only written while the pool is closed) *)
Append1(f, t, id) ==
  /\ Step /\ pool = "closed" /\ Len(files[f]) < MaxLen
  /\ files' = [files EXCEPT ![f] = Append(@, <<t, id>>)]
  /\ rev' = [rev EXCEPT ![f] = @ + 1]
  /\ last' = [op |-> "append", f |-> f]
  /\ UNCHANGED <<idx, ptrs, pool, table>>

(* indexGVF f *)
Index(f) ==
  /\ Step /\ pool = "closed" /\ Len(files[f]) > 0
  /\ idx' = [idx EXCEPT ![f] = rev[f]]
  /\ ptrs' = [ptrs EXCEPT ![f] = Pointers(files[f])]
  /\ last' = [op |-> "index", f |-> f]
  /\ UNCHANGED <<files, rev, pool, table>>

(* somebody deletes the last record of f after (or before) indexing *)
DropLast(f) ==
  /\ Step /\ pool = "closed" /\ Len(files[f]) > 1
  /\ files' = [files EXCEPT ![f] = SubSeq(@, 1, Len(@) - 1)]
  /\ rev' = [rev EXCEPT ![f] = @ + 1]
  /\ last' = [op |-> "drop", f |-> f]
  /\ UNCHANGED <<idx, ptrs, pool, table>>

(* VariantRecordPoolOnDiskOpener.open over all non-empty files *)
Used == {f \in Files : Len(files[f]) > 0}
Stale == {f \in Used : idx[f] # 0 /\ idx[f] # rev[f]}
RECURSIVE TableOf(_, _)
TableOf(fs, done) ==
  IF fs = {} THEN <<>>
  ELSE LET f == CHOOSE x \in fs : \A y \in fs : x <= y
           ps == IF idx[f] # 0 THEN ptrs[f] ELSE Pointers(files[f])
       IN [k \in 1..Len(ps) |-> <<f, ps[k][1], ps[k][2], ps[k][3]>>] \o TableOf(fs \ {f}, done)

Open ==
  /\ Step /\ pool = "closed" /\ Used # {}
  /\ IF Stale # {} THEN pool' = "error" /\ table' = <<>>
     ELSE pool' = "open" /\ table' = TableOf(Used, {})
  /\ last' = [op |-> "open"]
  /\ UNCHANGED <<files, rev, idx, ptrs>>

Close ==
  /\ Step /\ pool \in {"open", "error"}
  /\ pool' = "closed" /\ table' = <<>> /\ last' = [op |-> "close"]
  /\ UNCHANGED <<files, rev, idx, ptrs>>

Next == \/ \E f \in Files, t \in Tx, id \in RecIds : Append1(f, t, id)
        \/ \E f \in Files : Index(f) \/ DropLast(f)
        \/ Open \/ Close
Spec == Init /\ [][Next]_vars

(* records reachable for transcript t through the opened pool *)
Lookup(t) == UNION { {<<table[k][1], j>> : j \in table[k][3]..table[k][4]} :
                      k \in {x \in 1..Len(table) : table[x][2] = t} }

(* C13 *)
IndexEquivalent == pool = "open" => \A t \in Tx : Lookup(t) = Scan(files, t)
NoStaleOpen == pool = "open" => Stale = {}
StaleRejected == [][(last'.op = "open" /\ Stale # {}) => pool' = "error"]_vars
FreshAccepted == [][(last'.op = "open" /\ Stale = {}) => pool' = "open"]_vars
PointersAreRuns ==
  pool = "open" => \A k \in 1..Len(table) :
     /\ \A j \in table[k][3]..table[k][4] : files[table[k][1]][j][1] = table[k][2]
     /\ (table[k][3] > 1 => files[table[k][1]][table[k][3] - 1][1] # table[k][2])
     /\ (table[k][4] < Len(files[table[k][1]]) => files[table[k][1]][table[k][4] + 1][1] # table[k][2])
=============================================================================
