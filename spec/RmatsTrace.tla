------------------------------- MODULE RmatsTrace -------------------------------
(* C16: parseRMATS.  CASES_FILE: array of                                          *)
(* [chrom, gene, txs (all isoforms of the gene), ev (event, see Rmats.tla), ijc,      *)
(*  sjc, minIjc, minSjc,                                                             *)
(*  records: [[tx (1-based index into txs), kind, start, end, dstart, dend, ref]]]    *)
(* as read back from the GVF the real command line wrote for that one event.          *)
EXTENDS Rmats, TLC, Json, IOUtils
Cases == JsonDeserialize(IOEnv.CASES_FILE)
VARIABLE i
Init == i \in 1..Len(Cases)
Next == FALSE /\ i' = i
C == Cases[i]
Clause(name, ok) == ok \/ PrintT(<<"V", i, name>>)
Info(name, cond) == cond => PrintT(<<"V", i, name>>)

T(r) == C.txs[r.tx]
Coincides(t) == HasForm(t, C.ev, "inc") \/ HasForm(t, C.ev, "skip")
(* the alternative forms of its transcript that record r reproduces                   *)
Targets(r) ==
  LET d == Denote(C.chrom, C.gene, T(r), r)
  IN {a[1] : a \in {x \in AltSeqs(C.chrom, T(r), C.ev) : x[2] = d}}
TightCarrier(t) == HasFormTight(t, C.ev, "inc") \/ HasFormTight(t, C.ev, "skip")
Annotated(f) == \E k \in 1..Len(C.txs) : HasFormTight(C.txs[k], C.ev, f)
Recs == {C.records[k] : k \in 1..Len(C.records)}
Scoped == {r \in Recs : Coincides(T(r))}

(* coinciding transcripts for which a novel, supported alternative form exists but    *)
(* no record was written (not a violation of C16: reported as information)             *)
Missing ==
  {k \in 1..Len(C.txs) :
     /\ \E a \in AltSeqs(C.chrom, C.txs[k], C.ev) :
           ~Annotated(a[1]) /\ Supported(a[1], C.ijc, C.sjc, C.minIjc, C.minSjc)
     /\ ~\E r \in Recs : r.tx = k}

Verdict ==
  /\ Clause("alternative_form", \A r \in Scoped : Targets(r) # {})
  /\ Clause("form_already_annotated", \A r \in {x \in Scoped : TightCarrier(T(x))} : Targets(r) # {} => \E f \in Targets(r) : ~Annotated(f))
  /\ Clause("form_already_annotated_interjacent",
        \A r \in {x \in Scoped : ~TightCarrier(T(x))} : Targets(r) # {} => \E f \in Targets(r) : ~Annotated(f))
  /\ Clause("below_threshold",
        \A r \in Scoped : Targets(r) # {} => \E f \in Targets(r) : Supported(f, C.ijc, C.sjc, C.minIjc, C.minSjc))
  /\ Info("info_two_records_one_form",
        \E r \in Scoped : \E q \in Scoped : r # q /\ r.tx = q.tx /\ Targets(r) \cap Targets(q) # {})
  /\ Info("info_partial_layout_record", Recs # Scoped)
  /\ Info("info_expected_record_missing", Missing # {})
  /\ Info("info_validated", Scoped # {})
  /\ PrintT(<<"V", i, "done">>)
=============================================================================
