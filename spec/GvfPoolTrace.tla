----------------------------- MODULE GvfPoolTrace -----------------------------
(* C13, access-path level: recorded histories of real GVF files              *)
(* (append / drop / indexGVF / open / close) validated against GvfPool.       *)
(* TRACE_FILE: array of [events]; an open event carries the status and the    *)
(* pointer table of the real pool projected to record ranges.                 *)
EXTENDS Naturals, Sequences, FiniteSets, TLC, Json, IOUtils

Traces == JsonDeserialize(IOEnv.TRACE_FILE)
ToSet(s) == {s[i] : i \in 1..Len(s)}

Files == {1, 2}
Tx == {"T1", "T2", "T3"}
RecIds == 1..9
MaxLen == 6
MaxOps == 1000

VARIABLES files, rev, idx, ptrs, pool, table, nops, last, tid, l
P == INSTANCE GvfPool
Ev == Traces[tid].events

TraceInit == tid \in 1..Len(Traces) /\ l = 1 /\ P!Init

Is(name) == l <= Len(Ev) /\ Ev[l].event = name /\ l' = l + 1 /\ tid' = tid

TAppend == Is("append") /\ P!Append1(Ev[l].f, Ev[l].tx, Ev[l].id)
TDrop == Is("drop") /\ P!DropLast(Ev[l].f)
TIndex == Is("index") /\ P!Index(Ev[l].f)
TOpen == /\ Is("open") /\ P!Open
         /\ pool' = Ev[l].status
         /\ ToSet(table') = ToSet(Ev[l].table)
         /\ Len(table') = Len(Ev[l].table)
TClose == Is("close") /\ P!Close
TraceNext == TAppend \/ TDrop \/ TIndex \/ TOpen \/ TClose

Clause(name, ok) == ok \/ PrintT(<<"V", tid, name>>)
Props ==
  /\ Clause("IndexEquivalent", P!IndexEquivalent)
  /\ Clause("NoStaleOpen", P!NoStaleOpen)
  /\ Clause("PointersAreRuns", P!PointersAreRuns)
Accepted == (l = Len(Ev) + 1) => PrintT(<<"V", tid, "ok">>)
Progress == PrintT(<<"P", tid, l>>)
=============================================================================
