----------------------------- MODULE MC_Cleavage -----------------------------
(***************************************************************************)
(* Exhaustive evaluation of the cleavage rules over all strings of a       *)
(* bounded length over an alphabet, as a state machine whose states are    *)
(* the strings (blocks of consecutive string numbers are explored in       *)
(* parallel).  At every string:                                            *)
(*  - design-level theorems about the rule (window locality w.r.t. Wings,  *)
(*    partition independence, tiling by 0-miscleavage fragments,           *)
(*    monotonicity in the miscleavage limit);                              *)
(*  - conformance of the real code: CASES_FILE holds, per group            *)
(*    [rule, exc, alpha, len, masks, ranges], the cleavage sites the       *)
(*    implementation reported for string number n (bit k-1 set = site k)   *)
(*    and the pattern ranges it paired with them (start*64+end, 0-based).  *)
(* A failing clause is printed as a verdict; exploration continues.        *)
(***************************************************************************)
EXTENDS Cleavage, TLC, Json, IOUtils

Groups == JsonDeserialize(IOEnv.CASES_FILE)
BlockSize == 512

RECURSIVE Pow(_, _)
Pow(b, e) == IF e = 0 THEN 1 ELSE b * Pow(b, e - 1)

NStrings(G) == Pow(Len(G.alpha), G.len)
Str(G, n) == [i \in 1..G.len |-> G.alpha[((n \div Pow(Len(G.alpha), G.len - i)) % Len(G.alpha)) + 1]]

RECURSIVE MaskOf(_, _, _)
MaskOf(S, k, top) == IF k > top THEN 0 ELSE (IF k \in S THEN Pow(2, k - 1) ELSE 0) + MaskOf(S, k + 1, top)

VARIABLES g, n, last
vars == <<g, n, last>>

Init ==
  /\ g \in 1..Len(Groups)
  /\ \E b \in 0..((NStrings(Groups[g]) - 1) \div BlockSize) :
        /\ n = b * BlockSize
        /\ last = IF (b + 1) * BlockSize < NStrings(Groups[g]) THEN (b + 1) * BlockSize - 1
                  ELSE NStrings(Groups[g]) - 1
Next == n < last /\ n' = n + 1 /\ UNCHANGED <<g, last>>

G == Groups[g]
S == Str(G, n)
exc == G.exc           \* "" = none
TheSites == Sites(G.rule, exc, S)

Clause(name, ok) == ok \/ PrintT(<<"V", g, n, name>>)

(* -- design-level theorems ------------------------------------------------ *)
WindowLocal ==
  LET L == Wings(G.rule)[1]  R == Wings(G.rule)[2]
      LE == IF exc = "" THEN L ELSE (IF L < 2 THEN 2 ELSE L)   \* the exception looks at P2..P1'
      RE == IF exc = "" THEN R ELSE (IF R < 1 THEN 1 ELSE R)
  IN \A k \in 1..Len(S) :
       LET lo == IF k - LE < 0 THEN 0 ELSE k - LE
           w == Slice(S, lo, k + RE)
       IN IsSite(G.rule, exc, S, k) = IsSite(G.rule, exc, w, k - lo)

PartitionIndependent ==
  LET L == IF exc = "" THEN Wings(G.rule)[1] ELSE 4
      R == IF exc = "" THEN Wings(G.rule)[2] ELSE 2
  IN \A m \in 1..(Len(S) - 1) :
       LET a == SubSeq(S, 1, m)  b == SubSeq(S, m + 1, Len(S)) IN
       /\ \A k \in 1..m : k + R <= m => (IsSite(G.rule, exc, S, k) = IsSite(G.rule, exc, a, k))
       /\ \A k \in (m + 1)..Len(S) : k - m >= L => (IsSite(G.rule, exc, S, k) = IsSite(G.rule, exc, b, k - m))

Cfg(misc) == [rule |-> G.rule, exc |-> exc, misc |-> misc, minLen |-> 1, maxLen |-> 100, minMw5 |-> 5]

Tiling == \* consecutive boundaries give 0-misc fragments, and these tile the string
  LET B == Bounds(G.rule, exc, S)
      F0 == Fragments(S, Cfg(0), FALSE)
      Consec == {ab \in B \X B : ab[1] < ab[2] /\ ~\E x \in B : ab[1] < x /\ x < ab[2]}
  IN /\ \A ab \in Consec : SubSeq(S, ab[1] + 1, ab[2]) \in F0
     /\ Cardinality(Consec) = Cardinality(B) - 1
     /\ \A i \in 1..Len(S) : \E ab \in Consec : ab[1] < i /\ i <= ab[2]

MiscMonotone == Fragments(S, Cfg(0), TRUE) \subseteq Fragments(S, Cfg(1), TRUE)
                /\ Fragments(S, Cfg(1), TRUE) \subseteq Fragments(S, Cfg(2), TRUE)

(* -- conformance of the implementation ------------------------------------ *)
ImplSites == G.masks[n + 1] = MaskOf(TheSites, 1, Len(S))

(* ranges: one per site, in site order; the range must contain the bond, stay *)
(* inside the wings, and be sufficient on its own to trigger the rule         *)
RECURSIVE SetToSeq(_)
SetToSeq(T) == IF T = {} THEN <<>> ELSE LET m == CHOOSE x \in T : \A y \in T : x <= y IN <<m>> \o SetToSeq(T \ {m})

ImplRanges ==
  LET rs == G.ranges[n + 1]
      ss == SetToSeq(TheSites)
  IN IF Len(rs) = 1 /\ rs[1] = -1 THEN FALSE     \* the implementation raised
     ELSE /\ Len(rs) = Len(ss)
          /\ \A i \in 1..Len(rs) :
               LET st == rs[i] \div 64  en == rs[i] % 64  k == ss[i] IN
               /\ st < k /\ k <= en /\ en <= Len(S)
               /\ k - st <= Wings(G.rule)[1] /\ en - k <= Wings(G.rule)[2]
               /\ Cuts(G.rule, Slice(S, st, en), k - st)

Props ==
  /\ Clause("WindowLocal", WindowLocal)
  /\ Clause("PartitionIndependent", PartitionIndependent)
  /\ Clause("Tiling", Tiling)
  /\ Clause("MiscMonotone", MiscMonotone)
  /\ Clause("ImplSites", ImplSites)
  /\ (G.withRanges => Clause("ImplRanges", ImplRanges))
=============================================================================
