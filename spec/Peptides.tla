------------------------------- MODULE Peptides -------------------------------
(***************************************************************************)
(* Definitional layer: the peptides a transcript gives rise to.            *)
(*  tx  = [seq, coding, orfStart, orfEnd, startNF, endNF, sec]             *)
(*        sec: set of transcript positions of annotated Sec codons         *)
(*  cfg = Cleavage cfg + [sect, w2f, codingNovelOrf]                       *)
(***************************************************************************)
EXTENDS Cleavage, Variants

(* digestion with positions: pairs <<a, b>> of boundaries                      *)
FragPairs(p, cfg) ==
  LET B == Bounds(cfg.rule, cfg.exc, p)
  IN {ab \in B \X B : ab[1] < ab[2] /\ Cardinality({s \in B : ab[1] < s /\ s < ab[2]}) <= cfg.misc}

(* peptides of one translated open reading frame p (already cut at its stop).   *)
(*   isStart: p begins at a translation start, so fragments at position 0 also   *)
(*            occur without their first residue when that is M                   *)
(*   openEnd: no stop codon was found; dropTail: fragments reaching the open end *)
(*            are not reported (mRNA_end_NF, circRNA)                            *)
OrfPeptides(p, cfg, isStart, openEnd, dropTail) ==
  LET pairs == {ab \in FragPairs(p, cfg) : ~(openEnd /\ dropTail /\ ab[2] = Len(p))}
      plain == {SubSeq(p, ab[1] + 1, ab[2]) : ab \in pairs}
      mless == IF isStart /\ Len(p) > 0 /\ p[1] = "M"
               THEN {SubSeq(p, 2, ab[2]) : ab \in {x \in pairs : x[1] = 0}} ELSE {}
  IN {q \in plain \cup mless : Keep(q, cfg)}

(* translation of s from 0-based position i up to the first stop; annotated Sec  *)
(* codons (positions in secs, in frame with i) read as U                         *)
TranslateSec(s, i, secs) ==
  LET raw == Translate(s, i)
  IN [k \in 1..Len(raw) |-> IF raw[k] = "*" /\ (i + 3 * (k - 1)) \in secs THEN "U" ELSE raw[k]]

OrfOf(s, i, secs) ==
  LET full == TranslateSec(s, i, secs) IN [pep |-> UpToStop(full), open |-> FirstStop(full) = 0]

AtgStarts(s) == {i \in 0..(Len(s) - 3) : IsStart(s, i)}

(* all peptides of a backbone sequence s.                                        *)
(*  known: translation starts at the annotated position orfStart                  *)
(*  otherwise: at every ATG of the three frames                                   *)
SeqPeptides(s, known, orfStart, secs, cfg, dropTail) ==
  IF known
  THEN LET o == OrfOf(s, orfStart, secs) IN OrfPeptides(o.pep, cfg, TRUE, o.open, dropTail)
  ELSE UNION { LET o == OrfOf(s, i, {}) IN OrfPeptides(o.pep, cfg, TRUE, o.open, dropTail) : i \in AtgStarts(s) }

StartIdx(tx) == IF tx.coding THEN tx.orfStart + 3 ELSE 3
LastTriplet(tx) ==
  IF ~tx.endNF THEN <<0, 0>>
  ELSE IF tx.coding THEN <<tx.orfEnd - 3, tx.orfEnd>> ELSE <<Len(tx.seq) - 3, Len(tx.seq)>>

UsableVars(tx, V) == {v \in V : Usable(v, StartIdx(tx), LastTriplet(tx))}

(* digestion products of the unmodified transcript                               *)
RefPeptides(tx, cfg) == SeqPeptides(tx.seq, tx.coding, tx.orfStart, tx.sec, cfg, FALSE)

(* Sec positions move with upstream length changes; a Sec codon hit by a variant  *)
(* is no longer a Sec codon                                                       *)
ShiftedSecs(tx, H) ==
  {p + (LET up == {v \in H : v.end <= p} IN
          LET RECURSIVE Sum(_) Sum(S) == IF S = {} THEN 0 ELSE LET x == CHOOSE y \in S : TRUE IN (Len(x.alt) - Len(x.ref)) + Sum(S \ {x}) IN Sum(up))
     : p \in {q \in tx.sec : \A v \in H : ~Overlaps(v.start, v.end, q, q + 3)}}

(* peptides of the transcript carrying haplotype H                                *)
HapPeptides(tx, H, cfg) ==
  SeqPeptides(Apply(tx.seq, H), tx.coding, tx.orfStart, ShiftedSecs(tx, H), cfg, tx.endNF)

(* C01/C02 for the main (linear) unit: every haplotype's peptides, minus the      *)
(* digest of the unmodified transcript, minus the canonical pool.                 *)
(* dropTail: whether fragments reaching an open 3' end are left out               *)
HapPeptidesT(tx, H, cfg, dropTail) ==
  SeqPeptides(Apply(tx.seq, H), tx.coding, tx.orfStart, ShiftedSecs(tx, H), cfg, dropTail)

(***************************************************************************)
(* W>F reassignment: every non-empty subset of the tryptophans of a        *)
(* peptide read as phenylalanine.                                          *)
(***************************************************************************)
WPos(q) == {k \in 1..Len(q) : q[k] = "W"}
W2FImage(q, S) == [k \in 1..Len(q) |-> IF k \in S THEN "F" ELSE q[k]]
W2FImages(q) == {W2FImage(q, S) : S \in (SUBSET WPos(q)) \ {{}}}
W2FAll(PP, cfg) == {x \in UNION {W2FImages(q) : q \in PP} : Keep(x, cfg)}

(* the variants of one transcript of a recorded case: tr = [tx, vars, as, ...]; vars are        *)
(* replace-[start,end)-by-alt records; as[j] says that vars[as[j].idx] is an alternative-       *)
(* splicing record of kind as[j].kind with nested small variants as[j].nested                   *)
ToSetP(q) == {q[k] : k \in 1..Len(q)}
RecOf(x) == [start |-> x.start, end |-> x.end, ref |-> x.ref, alt |-> x.alt, id |-> x.id, nids |-> {}]
NestedOf(a) == IF "nested" \in DOMAIN a THEN {[start |-> x.start, end |-> x.end, ref |-> x.ref, alt |-> x.alt, id |-> x.id] : x \in ToSetP(a.nested)} ELSE {}
CaseVarsX(tr, strict) ==
  {RecOf(tr.vars[k]) : k \in 1..Len(tr.vars)}
    \cup UNION {Expansions(RecOf(tr.vars[a.idx]), a.kind = "Insertion", NestedOf(a), strict) : a \in {b \in ToSetP(tr.as) : b.kind # "Deletion"}}
CaseVars(tr) == CaseVarsX(tr, FALSE)

(* optional configuration fields (absent = off)                                    *)
MaxAdj(cfg) == IF "maxAdj" \in DOMAIN cfg THEN cfg.maxAdj ELSE 0
SectOn(cfg) == IF "sect" \in DOMAIN cfg THEN cfg.sect ELSE FALSE
W2FOn(cfg) == IF "w2f" \in DOMAIN cfg THEN cfg.w2f ELSE FALSE

(* Selenocysteine termination (--selenocysteine-termination): translation of the    *)
(* ORF pep may also stop at residue k (an annotated Sec read as U): the fragments    *)
(* that contain residue k, cut before it.                                            *)
SectAt(pep, k, cfg) ==
  LET pairs == {ab \in FragPairs(pep, cfg) : ab[1] < k - 1 /\ ab[2] >= k}
      cut == {SubSeq(pep, ab[1] + 1, k - 1) : ab \in pairs}
      mless == IF Len(pep) > 0 /\ pep[1] = "M"
               THEN {SubSeq(pep, 2, k - 1) : ab \in {x \in pairs : x[1] = 0}} ELSE {}
  IN {q \in cut \cup mless : Keep(q, cfg)}
(* residue index (1-based) of the Sec codon at sequence position p, for an ORF        *)
(* starting at orfStart; 0 when out of frame or upstream                              *)
SecResidue(orfStart, p) == IF p >= orfStart /\ (p - orfStart) % 3 = 0 THEN ((p - orfStart) \div 3) + 1 ELSE 0
SectPeptidesSeq(s, orfStart, secs, cfg) ==
  LET o == OrfOf(s, orfStart, secs)
      ks == {SecResidue(orfStart, p) : p \in secs}
  IN UNION {SectAt(o.pep, k, cfg) : k \in {j \in ks : j >= 1 /\ j <= Len(o.pep) /\ o.pep[j] = "U"}}
HapSect(tx, H, cfg) ==
  IF tx.coding /\ SectOn(cfg) THEN SectPeptidesSeq(Apply(tx.seq, H), tx.orfStart, ShiftedSecs(tx, H), cfg) ELSE {}

(* loose: C02's permissive compatibility (chains of adjacent variants of any length) *)
HapSets(tx, V, cfg, loose) ==
  IF loose THEN HaplotypesLoose(UsableVars(tx, V), StartIdx(tx), MaxAdj(cfg))
  ELSE HaplotypesK(UsableVars(tx, V), StartIdx(tx), MaxAdj(cfg))

VariantPeptidesT(tx, V, cfg, canonical, dropTail, loose) ==
  LET HS == HapSets(tx, V, cfg, loose)
      main == UNION {HapPeptidesT(tx, H, cfg, dropTail) : H \in HS}
      (* with Sec termination switched on, the Sec-truncated fragments of the UNMODIFIED   *)
      (* transcript are digestion products of the unmodified transcript too (they are      *)
      (* callAltTranslation's peptides): Complete does not require them, under whatever     *)
      (* label; Sound allows them                                                           *)
      sectAll == UNION {HapSect(tx, H, cfg) : H \in HS}
      refsect == IF loose THEN {} ELSE HapSect(tx, {}, cfg)
      (* likewise, with W>F reassignment switched on, the W>F images of the unmodified        *)
      (* transcript's products belong to the unmodified transcript (callAltTranslation)       *)
      refw2f == IF loose \/ ~W2FOn(cfg) THEN {} ELSE W2FAll(RefPeptides(tx, cfg) \cup refsect, cfg)
      base == (main \cup sectAll) \ (RefPeptides(tx, cfg) \cup canonical \cup refsect \cup refw2f)
      (* W>F images: Complete requires those of the reported variant peptides; Sound allows    *)
      (* those of every product of a variant haplotype (the tool forms them before its global  *)
      (* canonical filter, so the image of an I/L-canonical variant peptide can be reported)   *)
      pre == IF loose THEN main \cup sectAll ELSE base
      w2f == IF W2FOn(cfg) THEN W2FAll(pre, cfg) \ (IF loose THEN canonical ELSE (RefPeptides(tx, cfg) \cup canonical \cup refw2f)) ELSE {}
  IN base \cup w2f

(* Complete: what C01 requires (open-ended tail fragments of mRNA_end_NF         *)
(* transcripts are not required); Sound: what C02 allows (they are allowed)       *)
VariantPeptides(tx, V, cfg, canonical) == VariantPeptidesT(tx, V, cfg, canonical, tx.endNF, FALSE)
VariantPeptidesSound(tx, V, cfg, canonical) == VariantPeptidesT(tx, V, cfg, canonical, FALSE, TRUE)

(***************************************************************************)
(* Context-sensitive cleavage sites.  A rule (or exception) that looks     *)
(* further than P1 / P1' decides differently when it only sees part of its *)
(* window.  Possible: a cut under some truncation of the window; Robust: a *)
(* cut under every truncation.  Used only to classify a disagreement as    *)
(* the recorded finding "cleavage pattern context lost at a graph node     *)
(* boundary", never to accept an output silently.                          *)
(***************************************************************************)
Truncations(rule, exc) ==
  LET wl == IF exc = "" THEN Wings(rule)[1] ELSE (IF Wings(rule)[1] < 2 THEN 2 ELSE Wings(rule)[1])
      wr == IF exc = "" THEN Wings(rule)[2] ELSE (IF Wings(rule)[2] < 1 THEN 1 ELSE Wings(rule)[2])
  IN {lr \in (1..wl) \X (0..wr) : lr[2] >= (IF wr >= 1 THEN 1 ELSE 0)}

SiteUnder(rule, exc, p, k, l, r) ==
  LET lo == IF k - l < 0 THEN 0 ELSE k - l IN IsSite(rule, exc, Slice(p, lo, k + r), k - lo)
(* the graph also sees what surrounds an ORF: residues translated upstream of the  *)
(* start (any residue, "S" stands for one) and the stop symbol downstream           *)
Padded(p) == <<"S", "S", "S", "S">> \o p \o <<"*", "*">>
PossibleSite(cfg, p, k) ==
  \/ \E lr \in Truncations(cfg.rule, cfg.exc) : SiteUnder(cfg.rule, cfg.exc, p, k, lr[1], lr[2])
  \/ IsSite(cfg.rule, cfg.exc, Padded(p), k + 4)
RobustSite(cfg, p, k) ==
  /\ \A lr \in Truncations(cfg.rule, cfg.exc) : SiteUnder(cfg.rule, cfg.exc, p, k, lr[1], lr[2])
  /\ IsSite(cfg.rule, cfg.exc, Padded(p), k + 4)
Sensitive(cfg, p, k) == k \in 1..Len(p) /\ PossibleSite(cfg, p, k) /\ ~RobustSite(cfg, p, k)

(* q occurs in p as a fragment that a context-blind digestion could produce       *)
RelaxedFragment(cfg, p, q) ==
  \E a \in 0..Len(p) : \E b \in a..Len(p) :
     /\ (SubSeq(p, a + 1, b) = q \/ (a = 0 /\ Len(p) > 0 /\ p[1] = "M" /\ SubSeq(p, 2, b) = q))
     /\ (a = 0 \/ PossibleSite(cfg, p, a)) /\ (b = Len(p) \/ PossibleSite(cfg, p, b))
     /\ Cardinality({k \in (a + 1)..(b - 1) : RobustSite(cfg, p, k)}) <= cfg.misc
(* q occurs in p as a proper fragment that touches a context-sensitive site       *)
SensitiveFragment(cfg, p, q) ==
  \E a \in 0..Len(p) : \E b \in a..Len(p) :
     /\ (SubSeq(p, a + 1, b) = q \/ (a = 0 /\ Len(p) > 0 /\ p[1] = "M" /\ SubSeq(p, 2, b) = q))
     /\ \E k \in (IF a = 0 THEN 1 ELSE a)..b : Sensitive(cfg, p, k)

(* all translated ORFs of a backbone sequence                                     *)
SeqOrfs(s, known, orfStart, secs) ==
  IF known THEN {OrfOf(s, orfStart, secs).pep} ELSE {OrfOf(s, i, {}).pep : i \in AtgStarts(s)}
AllOrfs(tx, V) ==
  UNION {SeqOrfs(Apply(tx.seq, H), tx.coding, tx.orfStart, ShiftedSecs(tx, H)) :
           H \in HaplotypesLoose(UsableVars(tx, V), StartIdx(tx), 2) \cup {{}}}

(***************************************************************************)
(* C08: callNovelORF.  Every ATG of the three frames of a selected         *)
(* transcript opens an ORF that runs to the next stop or to the end of the *)
(* transcript.                                                             *)
(***************************************************************************)
NovelOrfTx(seq, cfg, canonical) ==
  LET base == SeqPeptides(seq, FALSE, 0, {}, cfg, FALSE) \ canonical
  IN IF cfg.w2f THEN base \cup (W2FAll(base, cfg) \ canonical) ELSE base

(***************************************************************************)
(* C09: callAltTranslation on a coding transcript: peptides of the         *)
(* annotated ORF that only exist because translation stops at an annotated *)
(* Sec codon (SECT) and / or tryptophans are read as F (W2F).              *)
(***************************************************************************)
SecResidues(tx) == {((p - tx.orfStart) \div 3) + 1 : p \in {q \in tx.sec : q >= tx.orfStart /\ (q - tx.orfStart) % 3 = 0}}

AltTransTx(tx, cfg, canonical) ==
  LET o == OrfOf(tx.seq, tx.orfStart, tx.sec)
      plain == OrfPeptides(o.pep, cfg, TRUE, o.open, tx.endNF)
      sect == IF cfg.sect THEN UNION {SectAt(o.pep, k, cfg) : k \in {j \in SecResidues(tx) : j <= Len(o.pep) /\ o.pep[j] = "U"}} ELSE {}
      w2f == IF cfg.w2f THEN W2FAll(plain \cup sect, cfg) ELSE {}
  IN (sect \cup w2f) \ canonical
=============================================================================
