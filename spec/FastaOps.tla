------------------------------- MODULE FastaOps -------------------------------
(***************************************************************************)
(* Definitional layer for the database bookkeeping commands (splitFasta,   *)
(* mergeFasta, encodeFasta, summarizeFasta, filterFasta).                  *)
(*                                                                         *)
(* pool   : set of peptides; a peptide is [seq, entries] with entries a    *)
(*          sequence of header entries                                     *)
(* entry  : [label, items] where items is a sequence of what the label     *)
(*          names: <<"var", gene, id>> (a record of some GVF),             *)
(*          <<"orf", "", "">>, <<"sect", "", "">>, <<"w2f", "", "">>       *)
(* gvfs   : sequence of [source, recs] (recs = set of <<gene, id>>), in    *)
(*          the order the files are given                                  *)
(* opts   : [order (sequence of items, an item being a set of sources),    *)
(*           group (function source -> group name; identity when absent),  *)
(*           maxGroups, additional (sequence of sets of sources)]          *)
(***************************************************************************)
EXTENDS Naturals, Integers, Sequences, FiniteSets

Range(s) == {s[i] : i \in 1..Len(s)}

Grp(opts, s) == IF s \in DOMAIN opts.group THEN opts.group[s] ELSE s

RECURSIVE AppendNew(_, _)
AppendNew(order, srcs) == \* append each source of the sequence srcs as its own item unless already an item
  IF srcs = <<>> THEN order
  ELSE IF \E k \in 1..Len(order) : order[k] = {Head(srcs)} THEN AppendNew(order, Tail(srcs))
  ELSE AppendNew(Append(order, {Head(srcs)}), Tail(srcs))

(* the level list: the user's order, then every GVF source in file order,      *)
(* then the internal sources                                                   *)
Levels(opts, gvfs) ==
  AppendNew(opts.order,
            [k \in 1..Len(gvfs) |-> Grp(opts, gvfs[k].source)] \o
            <<Grp(opts, "NovelORF"), Grp(opts, "SECT"), Grp(opts, "CodonReassign")>>)

LevelOfItem(lv, item) == CHOOSE k \in 1..Len(lv) : lv[k] = item

SourceOfVar(gvfs, gene, id) ==
  LET K == {k \in 1..Len(gvfs) : <<gene, id>> \in gvfs[k].recs}
  IN gvfs[CHOOSE k \in K : \A j \in K : k <= j].source

ItemSource(opts, gvfs, it) ==
  Grp(opts, CASE it[1] = "var" -> SourceOfVar(gvfs, it[2], it[3])
              [] it[1] = "orf" -> "NovelORF"
              [] it[1] = "sect" -> "SECT"
              [] OTHER -> "CodonReassign")

Sources(opts, gvfs, e) == {ItemSource(opts, gvfs, e.items[k]) : k \in 1..Len(e.items)}

(* a source set as level numbers: one number when the whole set is an item of  *)
(* the order, otherwise the levels of its members                              *)
ToInts(lv, S) ==
  IF Cardinality(S) > 1 /\ \E k \in 1..Len(lv) : lv[k] = S THEN {LevelOfItem(lv, S)}
  ELSE {LevelOfItem(lv, {x}) : x \in S}

RECURSIVE SortedSeq(_)
SortedSeq(T) == IF T = {} THEN <<>> ELSE LET m == CHOOSE x \in T : \A y \in T : x <= y IN <<m>> \o SortedSeq(T \ {m})

RECURSIVE LexLess(_, _)
LexLess(a, b) == IF a = <<>> \/ b = <<>> THEN FALSE
                 ELSE IF a[1] < b[1] THEN TRUE ELSE IF a[1] > b[1] THEN FALSE ELSE LexLess(Tail(a), Tail(b))

(* S1 has strictly higher priority (is "smaller") than S2                      *)
Before(lv, S1, S2) ==
  LET a == ToInts(lv, S1)  b == ToInts(lv, S2) IN
  \/ Cardinality(a) < Cardinality(b)
  \/ Cardinality(a) = Cardinality(b) /\ LexLess(SortedSeq(a), SortedSeq(b))

(* the best (highest-priority) source sets among the entries of a peptide       *)
BestSets(opts, gvfs, p) ==
  LET lv == Levels(opts, gvfs)
      all == {Sources(opts, gvfs, p.entries[k]) : k \in 1..Len(p.entries)}
  IN {S \in all : \A T \in all : ~Before(lv, T, S)}

(* database key of a source set: member sources in level order                  *)
KeyOf(lv, S) == SortedSeq({LevelOfItem(lv, {x}) : x \in S})
KeyNames(lv, S) == LET ks == KeyOf(lv, S) IN [k \in 1..Len(ks) |-> CHOOSE x \in lv[ks[k]] : TRUE]

DbKey(opts, gvfs, S) ==
  LET lv == Levels(opts, gvfs) IN
  IF Cardinality(S) <= opts.maxGroups THEN [kind |-> "sources", names |-> KeyNames(lv, S)]
  ELSE LET A == {k \in 1..Len(opts.additional) : opts.additional[k] \subseteq S}
       IN IF A # {} THEN [kind |-> "additional", names |-> KeyNames(lv, opts.additional[CHOOSE k \in A : \A j \in A : k <= j])]
          ELSE [kind |-> "remaining", names |-> <<>>]

(* splitFasta: the set of admissible database keys of a peptide (one key unless  *)
(* two entries tie with different source sets of equal priority)                  *)
SplitKeys(opts, gvfs, p) == {DbKey(opts, gvfs, S) : S \in BestSets(opts, gvfs, p)}

(* summarizeFasta counts a peptide under its best source set                     *)
SummaryKeys(opts, gvfs, p) == {[kind |-> "sources", names |-> KeyNames(Levels(opts, gvfs), S)] : S \in BestSets(opts, gvfs, p)}

(* mergeFasta: union of sequences; entries of equal sequences are concatenated    *)
SeqsOf(pool) == {p.seq : p \in pool}
EntriesOf(pool, s) == UNION {Range(p.entries) : p \in {q \in pool : q.seq = s}}
=============================================================================
