------------------------------ MODULE HeaderOracle ------------------------------
(* C03: every header entry of the callVariant FASTA is a truthful witness.          *)
(* CASES_FILE: array of [txs: [[tx, vars]], cfg, entries: [[tx (index), ids, seq,     *)
(*   label]]] (one element per (peptide, header entry) pair).                         *)
(* An entry names a backbone transcript and variant ids; all ids must be records of   *)
(* that transcript in the input, and applying exactly those variants (no others) to   *)
(* the transcript must give a translation in which the peptide is a digestion product. *)
EXTENDS Peptides, TLC, Json, IOUtils
Cases == JsonDeserialize(IOEnv.CASES_FILE)
ToSet(s) == {s[i] : i \in 1..Len(s)}
VARIABLE i
Init == i \in 1..Len(Cases)
Next == FALSE /\ i' = i
C == Cases[i]

TxOf(r) == [seq |-> r.seq, coding |-> r.coding, orfStart |-> r.orfStart, orfEnd |-> r.orfEnd,
            startNF |-> r.startNF, endNF |-> r.endNF, sec |-> ToSet(r.sec)]

(* an entry: tx (index), ids (input variant ids), sect (transcript positions of the     *)
(* annotated Sec codons named by SECT-<gene position> ids; -1 = names no annotated Sec), *)
(* w2f (residue numbers named by W2F-<k> ids), seq, label                                *)
(* the variant records of the entry's transcript; an alternative-splicing insertion /        *)
(* substitution occurs in one form per compatible subset of its nested variants (nids); the     *)
(* entry selects the form whose nested ids are exactly the nested ids it names                  *)
Vars(e) == CaseVars(C.txs[e.tx])
NestedIds(e, id) == UNION {v.nids : v \in {x \in Vars(e) : x.id = id}}
Named(e) == {v \in Vars(e) : v.id \in ToSet(e.ids) /\ v.nids = ToSet(e.ids) \cap NestedIds(e, v.id)}
IdsKnown(e) == /\ e.tx > 0
               /\ \A x \in ToSet(e.ids) : \/ \E v \in Vars(e) : v.id = x
                                          \/ \E v \in Vars(e) : x \in v.nids /\ v.id \in ToSet(e.ids)
               /\ \A k \in 1..Len(e.sect) : e.sect[k] \in TxOf(C.txs[e.tx].tx).sec
               /\ Len(e.sect) <= 1
(* position of reference position p on the sequence carrying H                            *)
RECURSIVE DeltaSum(_)
DeltaSum(S) == IF S = {} THEN 0 ELSE LET x == CHOOSE y \in S : TRUE IN (Len(x.alt) - Len(x.ref)) + DeltaSum(S \ {x})
ShiftPos(p, H) == p + DeltaSum({v \in H : v.end <= p})
(* the peptides the named backbone gives with exactly the variants H: plain digestion      *)
(* products, or - when the entry names a Sec termination - the fragments cut at that Sec   *)
BasePeptides(e, tx, H) ==
  IF Len(e.sect) = 0 THEN HapPeptidesT(tx, H, C.cfg, FALSE)
  ELSE LET p == e.sect[1]
           hit == \E v \in H : Overlaps(v.start, v.end, p, p + 3)
           o == OrfOf(Apply(tx.seq, H), tx.orfStart, ShiftedSecs(tx, H))
           k == SecResidue(tx.orfStart, ShiftPos(p, H))
       IN IF hit \/ ~tx.coding \/ k < 1 \/ k > Len(o.pep) THEN {} ELSE
          IF o.pep[k] # "U" THEN {} ELSE SectAt(o.pep, k, C.cfg)
(* W>F: the peptide is the image of a base peptide under exactly the named residues        *)
W2FSet(e) == ToSet(e.w2f)
WitnessWith(e, H) ==
  LET tx == TxOf(C.txs[e.tx].tx) IN
  /\ CompatibleLoose(H, StartIdx(tx), MaxAdj(C.cfg))
  /\ IF W2FSet(e) = {} THEN e.seq \in BasePeptides(e, tx, H)
     ELSE \E q \in BasePeptides(e, tx, H) :
            Len(q) = Len(e.seq) /\ W2FSet(e) \subseteq WPos(q) /\ W2FImage(q, W2FSet(e)) = e.seq
Witness(e) == IdsKnown(e) /\ WitnessWith(e, Named(e))
(* the recorded finding: the witness only works after adding ONE frameshifting input variant *)
(* of the same transcript that the entry does not name                                        *)
MissingFrameshift(e) ==
  IdsKnown(e) /\ \E v \in Vars(e) \ Named(e) : Frameshift(v) /\ WitnessWith(e, Named(e) \cup {v})

(* the recorded finding "cleavage pattern context lost at a graph node boundary" (see C01):   *)
(* with exactly the named variants the peptide is a fragment that a context-blind digestion    *)
(* could produce (only meaningful for rules / exceptions that look beyond P1 / P1')             *)
ContextWitness(e) ==
  /\ IdsKnown(e) /\ Len(e.sect) = 0 /\ W2FSet(e) = {}
  /\ LET tx == TxOf(C.txs[e.tx].tx)  H == Named(e) IN
     /\ CompatibleLoose(H, StartIdx(tx), MaxAdj(C.cfg))
     /\ \E p \in SeqOrfs(Apply(tx.seq, H), tx.coding, tx.orfStart, ShiftedSecs(tx, H)) : RelaxedFragment(C.cfg, p, e.seq)

(* where the peptide sits on the sequence carrying H: nucleotide positions of the first      *)
(* codon of every fragment of a translated ORF that spells e.seq                              *)
FragStarts(pep, q) ==
  {ab[1] : ab \in {x \in FragPairs(pep, C.cfg) : SubSeq(pep, x[1] + 1, x[2]) = q}}
    \cup (IF Len(pep) > 0 /\ pep[1] = "M" /\ \E x \in FragPairs(pep, C.cfg) : x[1] = 0 /\ SubSeq(pep, 2, x[2]) = q THEN {1} ELSE {})
PeptideStarts(tx, H, q) ==
  LET s == Apply(tx.seq, H)
      starts == IF tx.coding THEN {tx.orfStart} ELSE AtgStarts(s)
  IN UNION {{st + 3 * a : a \in FragStarts(OrfOf(s, st, IF tx.coding THEN ShiftedSecs(tx, H) ELSE {}).pep, q)} : st \in starts}
EndOnHap(v, H) == v.start + DeltaSum({u \in H \ {v} : u.end <= v.start}) + Len(v.alt)

(* recorded finding: the entry omits input variants that lie wholly UPSTREAM of the peptide    *)
(* (they change the reading frame or remove a stop codon on the way to it): some haplotype H     *)
(* names everything the entry names and more, is a witness, and every surplus variant - also a    *)
(* surplus variant nested in an alternative-splicing insertion / substitution - ends before the   *)
(* first codon of the peptide                                                                     *)
IdsOf(H) == UNION {{v.id} \cup v.nids : v \in H}
StartOnHap(v, H) == v.start + DeltaSum({u \in H \ {v} : u.end <= v.start})
AsMetaOf(e, id) == CHOOSE a \in ToSetP(C.txs[e.tx].as) : C.txs[e.tx].vars[a.idx].id = id
NestedEnd(e, x, nid, H) ==
  LET a == AsMetaOf(e, x.id)
      N == {n \in NestedOf(a) : n.id \in x.nids}
      n == CHOOSE m \in N : m.id = nid
      pre == IF a.kind = "Insertion" THEN 1 ELSE 0
  IN StartOnHap(x, H) + pre + n.start + DeltaSum({u \in N \ {n} : u.end <= n.start}) + Len(n.alt)
OmitsUpstream(e) ==
  /\ IdsKnown(e) /\ Len(e.sect) = 0 /\ W2FSet(e) = {}
  /\ LET tx == TxOf(C.txs[e.tx].tx)
         ids == ToSet(e.ids)
     IN /\ CompatibleLoose(Named(e), StartIdx(tx), MaxAdj(C.cfg))
        /\ \E H \in SUBSET Vars(e) :
              /\ ids \subseteq IdsOf(H) /\ IdsOf(H) # ids
              /\ WitnessWith(e, H)
              /\ \E pos \in PeptideStarts(tx, H, e.seq) :
                    \A v \in H : /\ (v.id \notin ids => EndOnHap(v, H) <= pos)
                                 /\ \A nid \in v.nids \ ids : NestedEnd(e, v, nid, H) <= pos
(* recorded finding: the entry names variants whose reference spans overlap (they cannot sit   *)
(* on one haplotype); the peptide is produced by a compatible subset of the named variants      *)
NamesOverlapping(e) ==
  /\ IdsKnown(e) /\ Len(e.sect) = 0 /\ W2FSet(e) = {}
  /\ LET tx == TxOf(C.txs[e.tx].tx) IN
     /\ ~CompatibleLoose(Named(e), StartIdx(tx), MaxAdj(C.cfg))
     /\ \E H \in SUBSET Named(e) : WitnessWith(e, H)

(* recorded finding: the entry names, besides the variants H the peptide carries, the other      *)
(* member(s) of a merged adjacent pair (--max-adjacent-as-mnv) that lie upstream of the peptide    *)
(* and that the peptide does not carry                                                             *)
NamesUnusedPartner(e) ==
  /\ IdsKnown(e) /\ Len(e.sect) = 0 /\ W2FSet(e) = {}
  /\ LET tx == TxOf(C.txs[e.tx].tx) IN
     /\ CompatibleLoose(Named(e), StartIdx(tx), MaxAdj(C.cfg))
     /\ \E H \in (SUBSET Named(e)) \ {Named(e)} :
           /\ WitnessWith(e, H)
           /\ \A x \in Named(e) \ H : \E y \in H : Mergeable(x, y, StartIdx(tx))

(* recorded finding: at a multi-allelic site the entry names another allele than the one the     *)
(* peptide carries: replacing named variants by input variants with the same span gives a witness  *)
NamesOtherAllele(e) ==
  /\ IdsKnown(e) /\ Len(e.sect) = 0 /\ W2FSet(e) = {}
  /\ \E H \in SUBSET Vars(e) :
        /\ Cardinality(H) = Cardinality(Named(e)) /\ H # Named(e)
        /\ \A v \in Named(e) \ H : \E w \in H \ Named(e) : w.start = v.start /\ w.end = v.end
        /\ \A w \in H \ Named(e) : \E v \in Named(e) \ H : w.start = v.start /\ w.end = v.end
        /\ WitnessWith(e, H)

(* recorded finding, residual class: the peptide is produced by a haplotype H that differs from the  *)
(* named set only in variants of a dense cluster - every variant named wrongly or omitted has       *)
(* another input variant within 3 nt (same or neighbouring codon), which is where the graph's        *)
(* bubbles overlap and labels of alternative branches get mixed.  A wrongly named or omitted         *)
(* ISOLATED variant is never matched.                                                                *)
GapBetween(v, w) == LET lo == IF v.start > w.start THEN v.start ELSE w.start
                        hi == IF v.end < w.end THEN v.end ELSE w.end
                    IN IF lo > hi THEN lo - hi ELSE 0
Crowded(e, v) == \E w \in Vars(e) \ {v} : GapBetween(v, w) <= 3
DenseClusterLabel(e) ==
  /\ IdsKnown(e) /\ Len(e.sect) = 0 /\ W2FSet(e) = {}
  /\ \E H \in SUBSET Vars(e) :
        /\ WitnessWith(e, H)
        /\ \A v \in (H \ Named(e)) \cup (Named(e) \ H) : Crowded(e, v)

(* the entry involves an alternative-splicing insertion / substitution that has nested variants   *)
(* (it names the record or one of its nested variants): recorded finding header_of_nested_as_variant *)
NestedAs(e) ==
  e.tx > 0 /\ \E a \in ToSetP(C.txs[e.tx].as) :
     /\ Len(a.nested) > 0
     /\ (C.txs[e.tx].vars[a.idx].id \in ToSet(e.ids) \/ \E n \in ToSetP(a.nested) : n.id \in ToSet(e.ids))

ClassOf(e) ==
  IF MissingFrameshift(e) THEN "missing_frameshift"
  ELSE IF OmitsUpstream(e) THEN "omits_upstream"
  ELSE IF NamesOverlapping(e) THEN "names_overlapping"
  ELSE IF NamesUnusedPartner(e) THEN "names_unused_partner"
  ELSE IF NamesOtherAllele(e) THEN "names_other_allele"
  ELSE IF ContextWitness(e) THEN "context_witness"
  ELSE IF NestedAs(e) THEN "nested_as"
  ELSE IF DenseClusterLabel(e) THEN "dense_cluster"
  ELSE "no_witness"

AllLabels == [k \in 1..Len(C.entries) |-> C.entries[k].label]
Unique == \A a, b \in 1..Len(C.entries) : a # b => AllLabels[a] # AllLabels[b]

Verdict ==
  LET bad == {k \in 1..Len(C.entries) : ~Witness(C.entries[k])}
  IN /\ (Unique \/ PrintT(<<"V", i, "duplicate_entry">>))
     /\ IF bad = {} THEN PrintT(<<"V", i, "ok", Len(C.entries)>>)
        ELSE PrintT(<<"V", i, "bad", {<<C.entries[k].label, ClassOf(C.entries[k])>> : k \in bad}>>)
=============================================================================
