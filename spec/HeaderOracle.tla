------------------------------ MODULE HeaderOracle ------------------------------
(* C03: every header entry of the callVariant FASTA is a truthful witness.          *)
(* CASES_FILE: array of [txs: [[tx, vars]], cfg, entries: [[tx (index), ids, seq,     *)
(*   label]]] (one element per (peptide, header entry) pair).                         *)
(* An entry names a backbone transcript and variant ids; all ids must be records of   *)
(* that transcript in the input, and applying exactly those variants (no others) to   *)
(* the transcript must give a translation in which the peptide is a digestion product. *)
EXTENDS Peptides, TLC, Json, IOUtils
Cases == JsonDeserialize(IOEnv.CASES_FILE)
ToSet(s) == {s[i] : i \in 1..Len(s)}
VARIABLE i
Init == i \in 1..Len(Cases)
Next == FALSE /\ i' = i
C == Cases[i]

TxOf(r) == [seq |-> r.seq, coding |-> r.coding, orfStart |-> r.orfStart, orfEnd |-> r.orfEnd,
            startNF |-> r.startNF, endNF |-> r.endNF, sec |-> ToSet(r.sec)]
VarsOf(vs) == {[start |-> vs[k].start, end |-> vs[k].end, ref |-> vs[k].ref, alt |-> vs[k].alt, id |-> vs[k].id] :
                 k \in 1..Len(vs)}

Named(e) == {v \in VarsOf(C.txs[e.tx].vars) : v.id \in ToSet(e.ids)}
IdsKnown(e) == e.tx > 0 /\ \A x \in ToSet(e.ids) : \E v \in VarsOf(C.txs[e.tx].vars) : v.id = x
WitnessWith(e, H) ==
  LET tx == TxOf(C.txs[e.tx].tx) IN
  Compatible(H, StartIdx(tx)) /\ e.seq \in HapPeptidesT(tx, H, C.cfg, FALSE)
Witness(e) == IdsKnown(e) /\ WitnessWith(e, Named(e))
(* the recorded finding: the witness only works after adding ONE frameshifting input variant *)
(* of the same transcript that the entry does not name                                        *)
MissingFrameshift(e) ==
  IdsKnown(e) /\ \E v \in VarsOf(C.txs[e.tx].vars) \ Named(e) : Frameshift(v) /\ WitnessWith(e, Named(e) \cup {v})

AllLabels == [k \in 1..Len(C.entries) |-> C.entries[k].label]
Unique == \A a, b \in 1..Len(C.entries) : a # b => AllLabels[a] # AllLabels[b]

Verdict ==
  LET bad == {k \in 1..Len(C.entries) : ~Witness(C.entries[k])}
      fs == {k \in bad : MissingFrameshift(C.entries[k])}
  IN /\ (Unique \/ PrintT(<<"V", i, "duplicate_entry">>))
     /\ IF bad = {} THEN PrintT(<<"V", i, "ok", Len(C.entries)>>)
        ELSE PrintT(<<"V", i, IF fs = bad THEN "missing_frameshift" ELSE "no_witness",
                     {C.entries[k].label : k \in bad}>>)
=============================================================================
