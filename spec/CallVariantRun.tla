--------------------------- MODULE CallVariantRun ---------------------------
(***************************************************************************)
(* The callVariant run as a state machine: the dispatch loop of            *)
(* cli/call_variant_peptide.py:call_variant_peptide, the per-transcript    *)
(* worker (call_variant_peptides_wrapper + caller_reducer) and the peptide *)
(* table / tally bookkeeping.                                              *)
(*                                                                         *)
(* One action per loop iteration / critical section of the code:           *)
(*   Gather      one iteration of `for tx_id in tx_sorted` up to the       *)
(*               evaluation of `reloaded`                                  *)
(*   Flush       `process_pool.map(caller_reducer, dispatches)` is issued  *)
(*   WorkerDone  one worker returns (any order)                            *)
(*   CollectOne  one iteration of `for ... in results`                     *)
(*   CollectCrashed  that iteration hits the None result of a worker that   *)
(*               raised (threads > 1)                                       *)
(*   EndCollect  `dispatches = []`                                         *)
(*   Finish      code after the loop: FASTA is written from the table      *)
(*   Abort       an exception leaves call_variant_peptide                  *)
(*                                                                         *)
(* The configuration of a run is the record-valued variable `c`, chosen in *)
(* Init from the constant set Configs and never changed: one TLC run then  *)
(* covers every thread count / fault set / skip pattern in Configs, and    *)
(* the trace specification instantiates Configs from recorded runs.        *)
(*                                                                         *)
(* Fields of a configuration:                                              *)
(*   ntx        transcripts with variants are 1..ntx in annotation order   *)
(*   threads    --threads                                                  *)
(*   skipFailed --skip-failed                                              *)
(*   units      [1..ntx -> Seq(unit id)]  main, then fusions, then circRNAs*)
(*   kind       [unit id -> "main"|"fusion"|"circRNA"]                     *)
(*   pep        [unit id -> set of peptides] result of the unit's caller   *)
(*              with no cross-unit denylist and unlimited complexity       *)
(*   weight     [peptide -> Nat] variants-per-node the peptide needs       *)
(*   valid      peptides passing VariantPeptideTable.is_valid              *)
(*   skip       transcripts for which gather returns None                  *)
(*   invalid    transcripts whose variant series raises ValueError         *)
(*   failing    units whose caller raises                                  *)
(*   timeouts   [1..ntx -> Nat] TimeoutErrors raised before the wrapper    *)
(*              is allowed to finish                                       *)
(*   ladder     --max-variants-per-node values (first = initial), -1 = off *)
(*   rule       "batch": flush when the batch holds `threads` dispatches   *)
(*                       or the queue is exhausted (repaired rule)         *)
(*              "pinned": the rule of commit 8d5ff52                       *)
(*   circFall   TRUE: a failing circRNA unit falls through the except      *)
(*              branch (8d5ff52); FALSE: it continues with the next unit   *)
(***************************************************************************)
EXTENDS Naturals, Integers, Sequences, FiniteSets, TLC

CONSTANT Configs

VARIABLES
  c,          \* configuration of this run (constant along a behaviour)
  pos,        \* loop iterations completed (0..ntx)
  cnt,        \* the code's counter `i`
  batch,      \* `dispatches`: sequence of transcripts
  phase,      \* "loop" | "check" | "running" | "collect" | "done" | "aborted"
  running,    \* transcripts handed to workers and not yet returned
  results,    \* [tx -> result] of returned workers of the current batch
  ci,         \* index into batch while collecting
  table,      \* peptide_table.index (set of sequences)
  tally       \* TallyTable

vars == <<c, pos, cnt, batch, phase, running, results, ci, table, tally>>

Range(s) == {s[i] : i \in 1..Len(s)}
Tx(cf) == 1..cf.ntx
Processed(cf) == Tx(cf) \ (cf.skip \cup cf.invalid)

-----------------------------------------------------------------------------
(* caller_reducer: complexity level reached after k timeouts.              *)
(* Returns the max_variants_per_node in force, or -2 for "gave up".        *)
RECURSIVE LevelAfter(_, _, _)
LevelAfter(ladder, cur, k) ==
  IF k = 0 THEN cur
  ELSE IF Len(ladder) > 1 THEN LevelAfter(Tail(ladder), ladder[2], k - 1)
  ELSE IF cur - 1 <= 0 THEN -2
  ELSE LevelAfter(<<cur - 1>>, cur - 1, k - 1)

Level(cf, t) == LevelAfter(cf.ladder, cf.ladder[1], cf.timeouts[t])

PepAt(cf, u, lvl) ==
  IF lvl = -1 THEN cf.pep[u] ELSE {p \in cf.pep[u] : cf.weight[p] <= lvl}

MainOf(cf, t) == {cf.units[t][i] : i \in {j \in 1..Len(cf.units[t]) : cf.kind[cf.units[t][j]] = "main"}}

(* The worker: call_variant_peptides_wrapper under caller_reducer.          *)
(* crashed = an exception leaves the worker.                                *)
WorkerResult(cf, t) ==
  LET us    == cf.units[t]
      lvl   == Level(cf, t)
      bad(k) == {us[i] : i \in {j \in 1..Len(us) : cf.kind[us[j]] = k /\ us[j] \in cf.failing}}
      mainFail == bad("main") # {}
      mainOk   == MainOf(cf, t) # {} /\ ~mainFail
      mainPeps == IF mainOk THEN UNION {PepAt(cf, u, lvl) : u \in MainOf(cf, t)} ELSE {}
      fusPeps  == UNION {PepAt(cf, us[i], lvl) :
                     i \in {j \in 1..Len(us) : cf.kind[us[j]] = "fusion" /\ us[j] \notin cf.failing}}
      circIdx  == {j \in 1..Len(us) : cf.kind[us[j]] = "circRNA"}
      circPeps == UNION {PepAt(cf, us[i], lvl) \ mainPeps :
                     i \in {j \in circIdx : us[j] \notin cf.failing}}
      \* 8d5ff52: failing circRNA unit with no earlier successful circRNA
      \* unit of this transcript -> UnboundLocalError leaves the wrapper
      unbound  == cf.circFall /\ \E j \in circIdx : us[j] \in cf.failing
                     /\ \A k \in circIdx : k < j => us[k] \in cf.failing
      anyFail  == \E i \in 1..Len(us) : us[i] \in cf.failing
  IN  [ crashed |-> (lvl = -2) \/ (anyFail /\ ~cf.skipFailed) \/ (cf.skipFailed /\ unbound),
        peps    |-> mainPeps \cup fusPeps \cup circPeps,
        flags   |-> <<~mainFail, bad("fusion") = {}, bad("circRNA") = {}>> ]

(* What the finished run must have written.                                 *)
Expected(cf) ==
  cf.valid \cap UNION { UNION { PepAt(cf, cf.units[t][i], Level(cf, t)) :
                                   i \in {j \in 1..Len(cf.units[t]) : cf.units[t][j] \notin cf.failing} } :
                        t \in Processed(cf) }

FailedTx(cf, k) ==
  {t \in Processed(cf) : \E i \in 1..Len(cf.units[t]) :
       cf.kind[cf.units[t][i]] = k /\ cf.units[t][i] \in cf.failing}

(* When the command must end with an error (stated independently of the    *)
(* worker model): an unusable record set or a failing unit without          *)
(* --skip-failed, or a transcript that cannot be finished at any            *)
(* complexity level.                                                        *)
MustAbort(cf) ==
  \/ ~cf.skipFailed /\ cf.invalid # {}
  \/ \E t \in Processed(cf) :
        \/ Level(cf, t) = -2
        \/ ~cf.skipFailed /\ \E i \in 1..Len(cf.units[t]) : cf.units[t][i] \in cf.failing

-----------------------------------------------------------------------------
Tally0 == [total |-> 0, processed |-> 0, invalid |-> 0, failMain |-> 0,
           failFusion |-> 0, failCirc |-> 0, totalPeptides |-> 0]

Init ==
  /\ c \in Configs
  /\ pos = 0 /\ cnt = 0 /\ batch = <<>> /\ phase = "loop"
  /\ running = {} /\ results = <<>> /\ ci = 0 /\ table = {}
  /\ tally = [Tally0 EXCEPT !.total = c.ntx]

(* One loop iteration up to the decision whether to flush.                  *)
Gather ==
  /\ phase = "loop" /\ pos < c.ntx
  /\ LET t == pos + 1 IN
     /\ pos' = t
     /\ IF t \in c.invalid THEN
          IF c.skipFailed
          THEN /\ tally' = [tally EXCEPT !.invalid = @ + 1]
               /\ batch' = batch
               /\ phase' = IF c.rule = "pinned" THEN "loop" ELSE "check"
               /\ cnt' = cnt
          ELSE /\ phase' = "aborted"
               /\ UNCHANGED <<tally, batch, cnt>>
        ELSE IF t \in c.skip THEN
          /\ UNCHANGED <<tally, batch, cnt>>
          /\ phase' = IF c.rule = "pinned" THEN "loop" ELSE "check"   \* pinned: `continue`
        ELSE
          /\ batch' = Append(batch, t)
          /\ tally' = [tally EXCEPT !.processed = @ + 1]
          /\ phase' = "check"
          /\ cnt' = cnt
  /\ UNCHANGED <<c, running, results, ci, table>>

Reloaded ==
  /\ Len(batch) > 0
  /\ IF c.rule = "pinned"
     THEN (cnt + 1) % c.threads = 0 \/ cnt + 1 = c.ntx
     ELSE Len(batch) >= c.threads \/ pos = c.ntx

Flush ==
  /\ phase = "check" /\ Reloaded
  /\ phase' = "running"
  \* threads = 1: results = [caller_reducer(dispatches[0])]
  /\ running' = IF c.threads > 1 THEN Range(batch) ELSE {batch[1]}
  /\ results' = <<>>
  /\ UNCHANGED <<c, pos, cnt, batch, ci, table, tally>>

NoFlush ==
  /\ phase = "check" /\ ~Reloaded
  /\ phase' = "loop"
  /\ cnt' = IF c.rule = "pinned" THEN cnt + 1 ELSE cnt
  /\ UNCHANGED <<c, pos, batch, running, results, ci, table, tally>>

WorkerDone(t) ==
  /\ phase = "running" /\ t \in running
  /\ running' = running \ {t}
  /\ results' = results @@ (t :> WorkerResult(c, t))
  /\ UNCHANGED <<c, pos, cnt, batch, phase, ci, table, tally>>

Dispatched == IF c.threads > 1 THEN batch ELSE <<batch[1]>>

(* The call that runs the batch has returned.  threads = 1: the worker runs *)
(* in the parent, an exception propagates at once.  threads > 1: the pool   *)
(* delivers None for a worker that raised, and the parent only trips over   *)
(* it when the collection loop reaches that result (CollectOne).            *)
StartCollect ==
  /\ phase = "running" /\ running = {}
  /\ IF c.threads = 1 /\ \E t \in DOMAIN results : results[t].crashed
     THEN phase' = "aborted" /\ ci' = ci
     ELSE phase' = "collect" /\ ci' = 1
  /\ UNCHANGED <<c, pos, cnt, batch, running, results, table, tally>>

CollectOne ==
  /\ phase = "collect" /\ ci <= Len(Dispatched)
  /\ ~results[Dispatched[ci]].crashed
  /\ LET t == Dispatched[ci]
         r == results[t] IN
     /\ table' = table \cup (r.peps \cap c.valid)
     /\ tally' = [tally EXCEPT
            !.totalPeptides = @ + Cardinality(r.peps),
            !.failMain   = @ + (IF r.flags[1] THEN 0 ELSE 1),
            !.failFusion = @ + (IF r.flags[2] THEN 0 ELSE 1),
            !.failCirc   = @ + (IF r.flags[3] THEN 0 ELSE 1)]
  /\ ci' = ci + 1
  /\ UNCHANGED <<c, pos, cnt, batch, phase, running, results>>

CollectCrashed ==
  /\ phase = "collect" /\ ci <= Len(Dispatched)
  /\ results[Dispatched[ci]].crashed
  /\ phase' = "aborted"
  /\ UNCHANGED <<c, pos, cnt, batch, running, results, ci, table, tally>>

EndCollect ==
  /\ phase = "collect" /\ ci > Len(Dispatched)
  /\ batch' = <<>> /\ results' = <<>> /\ ci' = 0
  /\ phase' = "loop"
  /\ cnt' = IF c.rule = "pinned" THEN cnt + 1 ELSE cnt
  /\ UNCHANGED <<c, pos, running, table, tally>>

Finish ==
  /\ phase = "loop" /\ pos = c.ntx
  /\ phase' = "done"
  /\ UNCHANGED <<c, pos, cnt, batch, running, results, ci, table, tally>>

Next ==
  \/ Gather \/ Flush \/ NoFlush \/ (\E t \in 1..c.ntx : WorkerDone(t))
  \/ StartCollect \/ CollectOne \/ CollectCrashed \/ EndCollect \/ Finish

Spec == Init /\ [][Next]_vars /\ WF_vars(Next)

-----------------------------------------------------------------------------
(* Properties                                                               *)

TypeOK ==
  /\ pos \in 0..c.ntx
  /\ phase \in {"loop", "check", "running", "collect", "done", "aborted"}
  /\ Range(batch) \subseteq Tx(c)
  /\ running \subseteq Range(batch)

(* C06/C07: a run that claims success wrote exactly the valid peptides of   *)
(* all non-skipped transcripts' non-failing units -- whatever the thread    *)
(* count, the skip pattern and the order in which workers returned.         *)
FinishedComplete == phase = "done" => table = Expected(c)
FinishedDrained  == phase = "done" => batch = <<>> /\ running = {}

(* C07: success is only claimed when allowed.                               *)
FinishedAllowed  == phase = "done" => ~MustAbort(c)
AbortJustified   == phase = "aborted" => MustAbort(c)

(* C02 (bookkeeping part): the table never holds anything no unit produced. *)
NeverInvents ==
  table \subseteq c.valid \cap UNION {c.pep[u] : u \in DOMAIN c.pep}

TallyOK == phase = "done" =>
  /\ tally.total = c.ntx
  /\ tally.processed = Cardinality(Processed(c))
  /\ tally.invalid = Cardinality(c.invalid)
  /\ tally.failMain = Cardinality(FailedTx(c, "main"))
  /\ tally.failFusion = Cardinality(FailedTx(c, "fusion"))
  /\ tally.failCirc = Cardinality(FailedTx(c, "circRNA"))

(* a batch never exceeds the number of workers                             *)
BatchBound == Len(batch) <= c.threads

TableGrows == [][table \subseteq table']_vars

(* liveness: every run ends, and ends the right way                        *)
Terminates == <>(phase \in {"done", "aborted"})
RightEnding == /\ (MustAbort(c)  => <>[](phase = "aborted"))
               /\ (~MustAbort(c) => <>[](phase = "done"))
=============================================================================
