------------------------------ MODULE MonotoneTrace ------------------------------
(* C05: paired callVariant runs of one input.  CASES_FILE: array of                 *)
(* [kind, a: cfg of the stricter run, b: cfg of the relaxed run, outA, outB:          *)
(*  [[seq, labels]], added (variant id, for kind = "variant")]                        *)
(* kinds: "misc", "minlen", "maxlen", "minmw", "sect", "w2f", "novelorf", "variant"   *)
(*        (b relaxes a: outA must be a subset of outB and every extra peptide must be *)
(*        attributable to the relaxation), "restrict" (b is the restricted run:       *)
(*        outB must be a subset of outA), "same" (two runs of one input that must    *)
(*        give the same set, e.g. thread counts under an injected timeout)            *)
(* txs: the transcripts of the input (may be empty for inputs too large for the oracle) *)
EXTENDS Peptides, TLC, Json, IOUtils
Cases == JsonDeserialize(IOEnv.CASES_FILE)
ToSet(s) == {s[i] : i \in 1..Len(s)}
VARIABLE i
Init == i \in 1..Len(Cases)
Next == FALSE /\ i' = i
C == Cases[i]
Seqs(o) == {o[k].seq : k \in 1..Len(o)}
LabelsOf(o, s) == UNION {ToSet(o[k].labels) : k \in {j \in 1..Len(o) : o[j].seq = s}}

(* an upper bound of the missed cleavages of p whatever its context: every residue that could be P1 *)
(* of a site, the last one excluded                                                                *)
MaybeSites(p) == Cardinality({k \in 1..(Len(p) - 1) : \E q \in {"A", "P", "K", "D", "F", "L", "E", "C", "G"} :
                                 Cuts(C.a.rule, <<"S", "S", "S", p[k], q, "S">>, 4) \/ Cuts(C.a.rule, <<"W", "M", "S", p[k], q, "S">>, 4)
                                 \/ Cuts(C.a.rule, <<"S", "S", "W", p[k], q, "S">>, 4) \/ Cuts(C.a.rule, <<"S", "S", "M", p[k], q, "S">>, 4)})

Attributable(p) ==
  LET lb == LabelsOf(C.outB, p) IN
  CASE C.kind = "misc" -> MaybeSites(p) > C.a.misc
    [] C.kind = "minlen" -> Len(p) < C.a.minLen
    [] C.kind = "maxlen" -> Len(p) > C.a.maxLen
    [] C.kind = "minmw" -> Mass(p) * 10 < C.a.minMw5
    [] C.kind = "sect" -> \E l \in lb : "SECT" \in ToSet(l)
    [] C.kind = "w2f" -> \E l \in lb : "W2F" \in ToSet(l)
    [] C.kind = "novelorf" -> \E l \in lb : "ORF" \in ToSet(l)
    [] C.kind = "variant" -> \E l \in lb : C.added \in ToSet(l)
    [] OTHER -> FALSE

TxOf(r) == [seq |-> r.seq, coding |-> r.coding, orfStart |-> r.orfStart, orfEnd |-> r.orfEnd,
            startNF |-> r.startNF, endNF |-> r.endNF, sec |-> ToSet(r.sec)]
(* Sec-truncated digestion products of the unmodified transcripts                          *)
RefSect == UNION {HapSect(TxOf(C.txs[k]), {}, [C.a EXCEPT !.sect = TRUE]) : k \in 1..Len(C.txs)}

(* W>F images of the digestion products of the unmodified transcripts                     *)
RefW2F == UNION {W2FAll(RefPeptides(TxOf(C.txs[k]), C.a), C.a) : k \in 1..Len(C.txs)}

Verdict ==
  IF C.kind = "same"
  THEN (Seqs(C.outA) = Seqs(C.outB) \/ PrintT(<<"V", i, "differs", (Seqs(C.outA) \ Seqs(C.outB)) \cup (Seqs(C.outB) \ Seqs(C.outA))>>))
       /\ PrintT(<<"V", i, "done">>)
  ELSE IF C.kind = "restrict"
  THEN (Seqs(C.outB) \subseteq Seqs(C.outA) \/ PrintT(<<"V", i, "restricted_not_subset", Seqs(C.outB) \ Seqs(C.outA)>>))
       /\ PrintT(<<"V", i, "done">>)
  ELSE LET lost == Seqs(C.outA) \ Seqs(C.outB)
           extra == Seqs(C.outB) \ Seqs(C.outA)
           unexplained == {p \in extra : ~Attributable(p)}
       IN /\ (lost = {} \/ PrintT(<<"V", i, IF C.kind = "sect" /\ lost \subseteq RefSect THEN "lost_sect_reference"
                                                      ELSE IF C.kind = "w2f" /\ lost \subseteq RefW2F THEN "lost_w2f_reference" ELSE "lost", lost>>))
          /\ (unexplained = {} \/ PrintT(<<"V", i, "unattributable", unexplained>>))
          /\ PrintT(<<"V", i, "done">>)
=============================================================================
