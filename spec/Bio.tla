--------------------------------- MODULE Bio ---------------------------------
(***************************************************************************)
(* Definitional layer: nucleotides, codons, translation, residue masses.   *)
(* Nucleotides and residues are one-character strings; sequences are TLA+  *)
(* sequences (1-based), positions in comments are 0-based as in the code.  *)
(***************************************************************************)
EXTENDS Naturals, Integers, Sequences, FiniteSets

Nt == {"A", "C", "G", "T"}

Complement(b) == CASE b = "A" -> "T" [] b = "T" -> "A" [] b = "C" -> "G" [] b = "G" -> "C" [] OTHER -> "N"

RevComp(s) == [i \in 1..Len(s) |-> Complement(s[Len(s) + 1 - i])]

Slice(s, a, b) == \* 0-based half-open [a, b), clipped
  LET lo == IF a < 0 THEN 0 ELSE a
      hi == IF b > Len(s) THEN Len(s) ELSE b
  IN IF hi <= lo THEN <<>> ELSE [i \in 1..(hi - lo) |-> s[lo + i]]

(* standard genetic code, NCBI table 1, in TCAG order                        *)
BaseIdx(b) == CASE b = "T" -> 0 [] b = "C" -> 1 [] b = "A" -> 2 [] b = "G" -> 3 [] OTHER -> 99
AATable == <<"F","F","L","L","S","S","S","S","Y","Y","*","*","C","C","*","W",
             "L","L","L","L","P","P","P","P","H","H","Q","Q","R","R","R","R",
             "I","I","I","M","T","T","T","T","N","N","K","K","S","S","R","R",
             "V","V","V","V","A","A","A","A","D","D","E","E","G","G","G","G">>
Codon(a, b, c) ==
  IF BaseIdx(a) > 3 \/ BaseIdx(b) > 3 \/ BaseIdx(c) > 3 THEN "X"
  ELSE AATable[BaseIdx(a) * 16 + BaseIdx(b) * 4 + BaseIdx(c) + 1]

IsStopCodon(a, b, c) == Codon(a, b, c) = "*"
IsStart(s, i) == \* 0-based i: ATG at s[i..i+3)
  i + 3 <= Len(s) /\ s[i + 1] = "A" /\ s[i + 2] = "T" /\ s[i + 3] = "G"

(* translation of every complete codon of s starting at 0-based offset `from` *)
Translate(s, from) ==
  LET n == (Len(s) - from) \div 3
  IN [k \in 1..(IF n < 0 THEN 0 ELSE n) |-> Codon(s[from + 3 * k - 2], s[from + 3 * k - 1], s[from + 3 * k])]

(* index (1-based, in residues) of the first stop in a translated sequence, 0 if none *)
FirstStop(p) ==
  LET S == {i \in 1..Len(p) : p[i] = "*"}
  IN IF S = {} THEN 0 ELSE CHOOSE i \in S : \A j \in S : i <= j

UpToStop(p) == IF FirstStop(p) = 0 THEN p ELSE SubSeq(p, 1, FirstStop(p) - 1)

(* average residue masses (Biopython IUPACData.protein_weights, incl. one     *)
(* water each) in 1e-4 Da; peptide mass = sum - (n-1) * water                 *)
ResMass(a) ==
  CASE a = "A" -> 890932 [] a = "C" -> 1211582 [] a = "D" -> 1331027 [] a = "E" -> 1471293
    [] a = "F" -> 1651891 [] a = "G" -> 750666 [] a = "H" -> 1551546 [] a = "I" -> 1311729
    [] a = "K" -> 1461876 [] a = "L" -> 1311729 [] a = "M" -> 1492113 [] a = "N" -> 1321179
    [] a = "O" -> 2553134 [] a = "P" -> 1151305 [] a = "Q" -> 1461445 [] a = "R" -> 1742010
    [] a = "S" -> 1050926 [] a = "T" -> 1191192 [] a = "U" -> 1680532 [] a = "V" -> 1171463
    [] a = "W" -> 2042252 [] a = "Y" -> 1811885 [] OTHER -> 0
Water == 180153

RECURSIVE SumMass(_, _)
SumMass(p, i) == IF i > Len(p) THEN 0 ELSE ResMass(p[i]) + SumMass(p, i + 1)
Mass(p) == SumMass(p, 1) - (Len(p) - 1) * Water       \* 1e-4 Da

HasRes(p, a) == \E i \in 1..Len(p) : p[i] = a

ILImage(p) == [i \in 1..Len(p) |-> IF p[i] = "I" THEN "L" ELSE p[i]]
=============================================================================
