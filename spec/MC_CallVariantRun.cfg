CONSTANTS
  NTX = 4
  MaxThreads = 4
  MaxFail = 2
  MaxInvalid = 1
  Rule = "batch"
  CircFall = FALSE
INIT Init
NEXT Next
INVARIANT TypeOK
INVARIANT FinishedComplete
INVARIANT FinishedDrained
INVARIANT FinishedAllowed
INVARIANT AbortJustified
INVARIANT NeverInvents
INVARIANT TallyOK
INVARIANT BatchBound
PROPERTY TableGrows
