CONSTANTS
  Params = {1, 2, 3}
  Tampers = {"python", "biopython", "mopepgen_old", "mopepgen_new"}
  MaxOps = 40
INIT Init
NEXT Next
VIEW View
INVARIANT LoadRight
INVARIANT LoadGuarded
INVARIANT Faithful
INVARIANT Registry
PROPERTY UpdateKeeps
PROPERTY BadVersionRejected
