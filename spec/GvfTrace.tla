------------------------------- MODULE GvfTrace -------------------------------
(* C13, format level.  CASES_FILE: array of cases                             *)
(*  variant: [kind |-> "variant", rec (as built in memory), line1 (tokens the   *)
(*            implementation wrote), parsed (fields the implementation read    *)
(*            back), line2 (tokens it wrote from the parsed record)]           *)
(*  circ:    [kind |-> "circ", rec, line1, parsed, line2]                       *)
EXTENDS GvfFormat, TLC, Json, IOUtils
Cases == JsonDeserialize(IOEnv.CASES_FILE)
VARIABLE i
Init == i \in 1..Len(Cases)
Next == FALSE /\ i' = i
C == Cases[i]
Clause(name, ok) == ok \/ PrintT(<<"V", i, name>>)

Core(r) == [gene |-> r.gene, start |-> r.start, end |-> r.end, id |-> r.id, ref |-> r.ref, alt |-> r.alt,
            kind |-> r.kind, attrs |-> r.attrs]

VariantOk ==
  /\ Clause("spec_roundtrip", WellFormed(C.rec) => RoundTrip(C.rec) /\ SecondGeneration(C.rec))
  /\ Clause("write", C.line1 = Line(C.rec))
  /\ Clause("read", Core(C.parsed) = Parse(C.line1))
  /\ Clause("rewrite", C.line2 = C.line1)
  /\ Clause("text_identical", C.text_same)

CircOk ==
  /\ Clause("circ_write", C.line1 = CircLine(C.rec))
  /\ Clause("circ_read", C.parsed = CircParse(C.line1))
  /\ Clause("circ_fragments", C.fragments = CircFragments(C.rec))
  /\ Clause("circ_rewrite", C.line2 = C.line1)
  /\ Clause("text_identical", C.text_same)

Verdict == (IF C.kind = "variant" THEN VariantOk ELSE CircOk) /\ PrintT(<<"V", i, "done">>)
=============================================================================
