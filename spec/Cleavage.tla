------------------------------ MODULE Cleavage ------------------------------
(***************************************************************************)
(* Definitional layer: ExPASy PeptideCutter rules and in-silico digestion. *)
(*                                                                         *)
(* A cut position k (1 <= k <= Len(p)) means "the bond after residue k",   *)
(* i.e. k residues precede the cut -- the same number the code calls a     *)
(* cleavage site.  In Schechter-Berger notation P1 = p[k], P2 = p[k-1],    *)
(* P1' = p[k+1], P2' = p[k+2].  Each rule is written as a predicate over   *)
(* that window (transcribed from the ExPASy table, not from regexes).      *)
(***************************************************************************)
EXTENDS Bio

P(p, k, j) == \* residue Pj (j >= 1) relative to cut k; "" when outside the sequence
  IF k - j + 1 >= 1 /\ k - j + 1 <= Len(p) THEN p[k - j + 1] ELSE ""
Q(p, k, j) == \* residue Pj'
  IF k + j >= 1 /\ k + j <= Len(p) THEN p[k + j] ELSE ""

Ex(x) == x # ""                         \* the position exists
Letter(x) == x # "" /\ x # "*"          \* what \w stands for on residue strings
NotIn(x, S) == x # "" /\ x \notin S     \* a negated class still needs a residue

Casp == {"P", "E", "D", "Q", "K", "R"}

Rules == {"arg-c", "asp-n", "bnps-skatole", "caspase 1", "caspase 2", "caspase 3", "caspase 4",
  "caspase 5", "caspase 6", "caspase 7", "caspase 8", "caspase 9", "caspase 10",
  "chymotrypsin high specificity", "chymotrypsin low specificity", "clostripain", "cnbr",
  "enterokinase", "factor xa", "formic acid", "glutamyl endopeptidase", "granzyme b",
  "hydroxylamine", "iodosobenzoic acid", "lysc", "lysn", "ntcb", "pepsin ph1.3", "pepsin ph2.0",
  "proline endopeptidase", "proteinase k", "staphylococcal peptidase i", "thermolysin", "thrombin",
  "trypsin"}

PepsinCut(p, k, S) ==
  /\ NotIn(P(p, k, 3), {"H", "K", "R"}) /\ NotIn(P(p, k, 2), {"P"}) /\ NotIn(Q(p, k, 2), {"P"})
  /\ \/ NotIn(P(p, k, 1), {"R"}) /\ Q(p, k, 1) \in S
     \/ P(p, k, 1) \in S /\ Letter(Q(p, k, 1))

Cuts(rule, p, k) ==
  LET p1 == P(p, k, 1)  p2 == P(p, k, 2)  p3 == P(p, k, 3)  p4 == P(p, k, 4)
      q1 == Q(p, k, 1)  q2 == Q(p, k, 2)
  IN
  CASE rule = "arg-c" -> p1 = "R"
    [] rule = "asp-n" -> Letter(p1) /\ q1 = "D"
    [] rule = "bnps-skatole" -> p1 = "W"
    [] rule = "caspase 1" -> p4 \in {"F", "W", "Y", "L"} /\ Letter(p3) /\ p2 \in {"H", "A", "T"} /\ p1 = "D" /\ NotIn(q1, Casp)
    [] rule = "caspase 2" -> p4 = "D" /\ p3 = "V" /\ p2 = "A" /\ p1 = "D" /\ NotIn(q1, Casp)
    [] rule = "caspase 3" -> p4 = "D" /\ p3 = "M" /\ p2 = "Q" /\ p1 = "D" /\ NotIn(q1, Casp)
    [] rule = "caspase 4" -> p4 = "L" /\ p3 = "E" /\ p2 = "V" /\ p1 = "D" /\ NotIn(q1, Casp)
    [] rule = "caspase 5" -> p4 \in {"L", "W"} /\ p3 = "E" /\ p2 = "H" /\ p1 = "D"
    [] rule = "caspase 6" -> p4 = "V" /\ p3 = "E" /\ p2 \in {"H", "I"} /\ p1 = "D" /\ NotIn(q1, Casp)
    [] rule = "caspase 7" -> p4 = "D" /\ p3 = "E" /\ p2 = "V" /\ p1 = "D" /\ NotIn(q1, Casp)
    [] rule = "caspase 8" -> p4 \in {"I", "L"} /\ p3 = "E" /\ p2 = "T" /\ p1 = "D" /\ NotIn(q1, Casp)
    [] rule = "caspase 9" -> p4 = "L" /\ p3 = "E" /\ p2 = "H" /\ p1 = "D"
    [] rule = "caspase 10" -> p4 = "I" /\ p3 = "E" /\ p2 = "A" /\ p1 = "D"
    [] rule = "chymotrypsin high specificity" ->
         \/ p1 \in {"F", "Y"} /\ NotIn(q1, {"P"})
         \/ p1 = "W" /\ NotIn(q1, {"M", "P"})
    [] rule = "chymotrypsin low specificity" ->
         \/ p1 \in {"F", "L", "Y"} /\ NotIn(q1, {"P"})
         \/ p1 = "W" /\ NotIn(q1, {"M", "P"})
         \/ p1 = "M" /\ NotIn(q1, {"P", "Y"})
         \/ p1 = "H" /\ NotIn(q1, {"D", "M", "P", "W"})
    [] rule = "clostripain" -> p1 = "R"
    [] rule = "cnbr" -> p1 = "M"
    [] rule = "enterokinase" -> p4 \in {"D", "E"} /\ p3 \in {"D", "E"} /\ p2 \in {"D", "E"} /\ p1 = "K"
    [] rule = "factor xa" -> p4 \in {"A", "F", "G", "I", "L", "T", "V", "M"} /\ p3 \in {"D", "E"} /\ p2 = "G" /\ p1 = "R"
    [] rule = "formic acid" -> p1 = "D"
    [] rule = "glutamyl endopeptidase" -> p1 = "E"
    [] rule = "granzyme b" -> p4 = "I" /\ p3 = "E" /\ p2 = "P" /\ p1 = "D"
    [] rule = "hydroxylamine" -> p1 = "N" /\ q1 = "G"
    [] rule = "iodosobenzoic acid" -> p1 = "W"
    [] rule = "lysc" -> p1 = "K"
    [] rule = "lysn" -> Letter(p1) /\ q1 = "K"
    [] rule = "ntcb" -> Letter(p1) /\ q1 = "C"
    [] rule = "pepsin ph1.3" -> PepsinCut(p, k, {"F", "L"})
    [] rule = "pepsin ph2.0" -> PepsinCut(p, k, {"F", "L", "W", "Y"})
    [] rule = "proline endopeptidase" -> p2 \in {"H", "K", "R"} /\ p1 = "P" /\ NotIn(q1, {"P"})
    [] rule = "proteinase k" -> p1 \in {"A", "E", "F", "I", "L", "T", "V", "W", "Y"}
    [] rule = "staphylococcal peptidase i" -> NotIn(p2, {"E"}) /\ p1 = "E"
    [] rule = "thermolysin" -> NotIn(p1, {"D", "E"}) /\ q1 \in {"A", "F", "I", "L", "M", "V"}
    [] rule = "thrombin" ->
         \/ p2 = "G" /\ p1 = "R" /\ q1 = "G"
         \/ /\ p4 \in {"A", "F", "G", "I", "L", "T", "V", "M"}
            /\ p3 \in {"A", "F", "G", "I", "L", "T", "V", "W"}
            /\ p2 = "P" /\ p1 = "R" /\ NotIn(q1, {"D", "E"}) /\ NotIn(q2, {"D", "E"})
    [] rule = "trypsin" ->
         \/ p1 \in {"K", "R"} /\ NotIn(q1, {"P"})
         \/ p2 = "W" /\ p1 = "K" /\ q1 = "P"
         \/ p2 = "M" /\ p1 = "R" /\ q1 = "P"
    [] OTHER -> FALSE

(* positions blocked by the exception named exc ("" = no exception)          *)
Blocked(exc, p, k) ==
  LET p1 == P(p, k, 1)  p2 == P(p, k, 2)  q1 == Q(p, k, 1) IN
  CASE exc = "trypsin_exception" ->
         \/ p2 \in {"C", "D"} /\ p1 = "K" /\ q1 = "D"
         \/ p2 = "C" /\ p1 = "K" /\ q1 \in {"H", "Y"}
         \/ p2 = "C" /\ p1 = "R" /\ q1 = "K"
         \/ p2 = "R" /\ p1 = "R" /\ q1 \in {"H", "R"}
    [] OTHER -> FALSE

IsSite(rule, exc, p, k) == k \in 1..Len(p) /\ Cuts(rule, p, k) /\ ~Blocked(exc, p, k)
Sites(rule, exc, p) == {k \in 1..Len(p) : IsSite(rule, exc, p, k)}

(* number of residues left / right of a cut that can influence the decision   *)
Wings(rule) ==
  CASE rule \in {"arg-c", "bnps-skatole", "clostripain", "cnbr", "formic acid",
                 "glutamyl endopeptidase", "iodosobenzoic acid", "lysc", "proteinase k"} -> <<1, 0>>
    [] rule \in {"asp-n", "lysn", "ntcb", "hydroxylamine", "thermolysin",
                 "chymotrypsin high specificity", "chymotrypsin low specificity"} -> <<1, 1>>
    [] rule \in {"caspase 1", "caspase 2", "caspase 3", "caspase 4", "caspase 6", "caspase 7", "caspase 8"} -> <<4, 1>>
    [] rule \in {"caspase 5", "caspase 9", "caspase 10", "enterokinase", "factor xa", "granzyme b"} -> <<4, 0>>
    [] rule \in {"pepsin ph1.3", "pepsin ph2.0"} -> <<3, 2>>
    [] rule = "proline endopeptidase" -> <<2, 1>>
    [] rule = "staphylococcal peptidase i" -> <<2, 0>>
    [] rule = "thrombin" -> <<4, 2>>
    [] rule = "trypsin" -> <<2, 1>>
    [] OTHER -> <<4, 2>>

(***************************************************************************)
(* Digestion.  cfg = [rule, exc, misc, minLen, maxLen, minMw5] where        *)
(* minMw5 is the minimum mass in 1e-5 Da and never a multiple of 10, so a   *)
(* peptide mass (1e-4 Da) is never equal to the threshold.                  *)
(***************************************************************************)
Keep(q, cfg) ==
  /\ Len(q) >= cfg.minLen /\ Len(q) <= cfg.maxLen
  /\ ~HasRes(q, "X") /\ ~HasRes(q, "*")
  /\ Mass(q) * 10 > cfg.minMw5

(* fragments p(a..b] between boundaries a < b (0, sites, Len) with at most   *)
(* misc sites strictly inside; ntermM: also the fragment without its leading *)
(* methionine when it starts the protein                                     *)
Bounds(rule, exc, p) == {0, Len(p)} \cup Sites(rule, exc, p)

Fragments(p, cfg, ntermM) ==
  LET B == Bounds(cfg.rule, cfg.exc, p)
      pairs == {ab \in B \X B : ab[1] < ab[2] /\
                  Cardinality({s \in B : ab[1] < s /\ s < ab[2]}) <= cfg.misc}
      plain == {SubSeq(p, ab[1] + 1, ab[2]) : ab \in pairs}
      mless == IF ntermM /\ Len(p) > 0 /\ p[1] = "M"
               THEN {SubSeq(p, 2, ab[2]) : ab \in {x \in pairs : x[1] = 0}} ELSE {}
  IN plain \cup mless

Digest(p, cfg, ntermM) == {q \in Fragments(p, cfg, ntermM) : Keep(q, cfg)}

(* number of cleavage sites strictly inside a peptide (missed cleavages)     *)
Misc(rule, exc, q) == Cardinality({k \in Sites(rule, exc, q) : k < Len(q)})

(***************************************************************************)
(* Canonical pool of a proteome (C10): each protein is cut at its first     *)
(* stop, leading X are removed, it is digested (with the M-removed start    *)
(* peptides unless cds_start_NF) and every peptide also contributes its     *)
(* I->L image.  proteins: sequence of [seq, startNF].                       *)
(***************************************************************************)
RECURSIVE StripX(_)
StripX(p) == IF Len(p) > 0 /\ p[1] = "X" THEN StripX(Tail(p)) ELSE p

Canon(p) == UpToStop(StripX(p))

CanonicalPool(proteins, cfg) ==
  LET raw == UNION {Digest(Canon(proteins[i].seq), cfg, ~proteins[i].startNF) : i \in 1..Len(proteins)}
  IN raw \cup {ILImage(q) : q \in raw}
=============================================================================
