CONSTANTS
  Files = {1, 2}
  Tx = {"T1", "T2", "T3"}
  RecIds = {1}
  MaxLen = 3
  MaxOps = 9
INIT Init
NEXT Next
INVARIANT IndexEquivalent
INVARIANT NoStaleOpen
INVARIANT PointersAreRuns
PROPERTY StaleRejected
PROPERTY FreshAccepted
