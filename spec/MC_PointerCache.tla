--------------------------- MODULE MC_PointerCache ---------------------------
EXTENDS PointerCache, Json
PrintHist == Len(hist) < MaxOps \/ PrintT(<<"H", ToJson(hist)>>)
=============================================================================
