--------------------------- MODULE CallVariantOracle ---------------------------
(* C01 / C02 / C04: the FASTA written by callVariant for a recorded input     *)
(* against the definitional peptide set.                                      *)
(* CASES_FILE: array of [txs: [[tx, vars]], cfg, proteome, observed]          *)
(*   Complete = Sound on the tiers that use this module (linear transcripts,  *)
(*   small variants); grey zones are kept out by the generators.              *)
EXTENDS Peptides, Rmats, TLC, Json, IOUtils

Cases == JsonDeserialize(IOEnv.CASES_FILE)
ToSet(s) == {s[i] : i \in 1..Len(s)}
VARIABLE i
Init == i \in 1..Len(Cases)
Next == FALSE /\ i' = i
C == Cases[i]

TxOf(r) == [seq |-> r.seq, coding |-> r.coding, orfStart |-> r.orfStart, orfEnd |-> r.orfEnd,
            startNF |-> r.startNF, endNF |-> r.endNF, sec |-> ToSet(r.sec)]

Canonical == CanonicalPool(C.proteome, C.cfg)
(* Complete uses the nested variants the tool's lookup considers (strictly inside the donor   *)
(* segment); Sound allows all of them                                                        *)
Complete == UNION {VariantPeptides(TxOf(C.txs[k].tx), CaseVarsX(C.txs[k], TRUE), C.cfg, Canonical) : k \in 1..Len(C.txs)}
CompleteAll == UNION {VariantPeptides(TxOf(C.txs[k].tx), CaseVars(C.txs[k]), C.cfg, Canonical) : k \in 1..Len(C.txs)}
Sound == UNION {VariantPeptidesSound(TxOf(C.txs[k].tx), CaseVars(C.txs[k]), C.cfg, Canonical) : k \in 1..Len(C.txs)}
Observed == ToSet(C.observed)

(* classification of a disagreement: is every offending peptide attributable to a   *)
(* context-sensitive cleavage site (recorded finding)?                               *)
Orfs == UNION {AllOrfs(TxOf(C.txs[k].tx), CaseVars(C.txs[k])) : k \in 1..Len(C.txs)}
ExtraExplained(q) == \E p \in Orfs : RelaxedFragment(C.cfg, p, q)
MissingExplained(q) == \E p \in Orfs : SensitiveFragment(C.cfg, p, q)

RefsOk == \A k \in 1..Len(C.txs) : \A j \in 1..Len(C.txs[k].vars) :
             RefMatches(C.txs[k].tx.seq, C.txs[k].vars[j])

(* alternative-splicing records: the replace-[start,end)-by-alt form the harness derived from the   *)
(* record (callVariant's internal anchoring) must denote exactly what Rmats.tla says the record     *)
(* means on this transcript, and the structure given must spell the transcript                      *)
AsOk == \A k \in 1..Len(C.txs) : \A j \in 1..Len(C.txs[k].as) :
          LET a == C.txs[k].as[j]
              st == C.txs[k].struct
              t == [strand |-> st.tx.strand, exons |-> st.tx.exons]
              v == C.txs[k].vars[a.idx]
          IN /\ TxSeq(st.chrom, t) = C.txs[k].tx.seq
             /\ Apply(C.txs[k].tx.seq, {[start |-> v.start, end |-> v.end, ref |-> v.ref, alt |-> v.alt, id |-> v.id]})
                  = Denote(st.chrom, st.gene, t, a)

Verdict ==
  LET cpl == Complete  snd == Sound  obs == Observed
      missing == cpl \ obs  extra == obs \ snd IN
  IF ~RefsOk \/ ~AsOk THEN PrintT(<<"V", i, "badcase">>)
  ELSE IF missing = {} /\ extra = {} THEN PrintT(<<"V", i, "ok", Cardinality(cpl)>>)
  ELSE LET ctx == (\A q \in missing : MissingExplained(q)) /\ (\A q \in extra : ExtraExplained(q)) IN
       PrintT(<<"V", i, IF ctx THEN "context" ELSE "diff", "missing", missing, "extra", extra>>)
=============================================================================
