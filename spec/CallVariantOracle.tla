--------------------------- MODULE CallVariantOracle ---------------------------
(* C01 / C02 / C04: the FASTA written by callVariant for a recorded input     *)
(* against the definitional peptide set.                                      *)
(* CASES_FILE: array of [txs: [[tx, vars]], cfg, proteome, observed]          *)
(*   Complete = Sound on the tiers that use this module (linear transcripts,  *)
(*   small variants); grey zones are kept out by the generators.              *)
EXTENDS Peptides, Rmats, TLC, Json, IOUtils

Cases == JsonDeserialize(IOEnv.CASES_FILE)
ToSet(s) == {s[i] : i \in 1..Len(s)}
VARIABLE i
Init == i \in 1..Len(Cases)
Next == FALSE /\ i' = i
C == Cases[i]

TxOf(r) == [seq |-> r.seq, coding |-> r.coding, orfStart |-> r.orfStart, orfEnd |-> r.orfEnd,
            startNF |-> r.startNF, endNF |-> r.endNF, sec |-> ToSet(r.sec)]

Canonical == CanonicalPool(C.proteome, C.cfg)
(* Complete uses the nested variants the tool's lookup considers (strictly inside the donor   *)
(* segment); Sound allows all of them                                                        *)
Complete == UNION {VariantPeptides(TxOf(C.txs[k].tx), CaseVarsX(C.txs[k], TRUE), C.cfg, Canonical) : k \in 1..Len(C.txs)}
CompleteAll == UNION {VariantPeptides(TxOf(C.txs[k].tx), CaseVars(C.txs[k]), C.cfg, Canonical) : k \in 1..Len(C.txs)}
Sound == UNION {VariantPeptidesSound(TxOf(C.txs[k].tx), CaseVars(C.txs[k]), C.cfg, Canonical) : k \in 1..Len(C.txs)}
Observed == ToSet(C.observed)

(* classification of a disagreement: is every offending peptide attributable to a   *)
(* context-sensitive cleavage site (recorded finding)?                               *)
Orfs == UNION {AllOrfs(TxOf(C.txs[k].tx), CaseVars(C.txs[k])) : k \in 1..Len(C.txs)}
ExtraExplained(q) == \E p \in Orfs : RelaxedFragment(C.cfg, p, q)
MissingExplained(q) == \E p \in Orfs : SensitiveFragment(C.cfg, p, q)

(***************************************************************************)
(* Recorded finding "cleavage site borrowed from a sibling form": an         *)
(* alternative-splicing insertion / substitution with nested variants is a   *)
(* sub-graph whose branches share node boundaries; a cleavage site that      *)
(* exists only in the branch carrying a nested variant also cuts the branch  *)
(* without it (and vice versa).  q is such a fragment when, for a haplotype  *)
(* H and the haplotype H2 that differs from H only in the nested variants of *)
(* one record, q = p(a..b] with a a boundary of p = ORF(H), b a site of      *)
(* p2 = ORF(H2) that is not a site of p, and p, p2 agree before residue b.   *)
(***************************************************************************)
(* all <<p, B, b>>: p an ORF of a haplotype, B its boundaries, b a "phantom" site borrowed from a sibling *)
SibTriples ==
  UNION {
    LET tr == C.txs[k]  tx == TxOf(tr.tx)  VV == CaseVars(tr)
        starts(s) == IF tx.coding THEN {tx.orfStart} ELSE AtgStarts(s)
    IN UNION { UNION { UNION {
         LET H2 == (H \ {x}) \cup {x2}
             s1 == Apply(tx.seq, H)  s2 == Apply(tx.seq, H2)
         IN UNION {
              LET p == OrfOf(s1, st, IF tx.coding THEN ShiftedSecs(tx, H) ELSE {}).pep
                  p2 == OrfOf(s2, st, IF tx.coding THEN ShiftedSecs(tx, H2) ELSE {}).pep
                  B == Bounds(C.cfg.rule, C.cfg.exc, p)
                  B2 == Bounds(C.cfg.rule, C.cfg.exc, p2)
              IN {<<p, B, b>> : b \in {y \in (B2 \ B) \cap (1..Len(p)) : SubSeq(p, 1, y - 1) = SubSeq(p2, 1, y - 1)}}
              : st \in starts(s1) \cap starts(s2)}
         : x2 \in {y \in VV \ {x} : y.id = x.id}}
       : x \in H}
     : H \in HaplotypesLoose(UsableVars(tx, VV), StartIdx(tx), MaxAdj(C.cfg))}
    : k \in {j \in 1..Len(C.txs) : \E a \in ToSetP(C.txs[j].as) : Len(a.nested) > 0}}
Spells(p, a, c, q) == q = SubSeq(p, a + 1, c) \/ (a = 0 /\ Len(p) > 0 /\ p[1] = "M" /\ q = SubSeq(p, 2, c))
(* an extra peptide that ends at a phantom site                                               *)
SiblingFragment(T, q) ==
  \E t \in T : \E a \in {y \in t[2] : y < t[3]} :
     Cardinality({y \in t[2] : a < y /\ y < t[3]}) <= C.cfg.misc /\ Spells(t[1], a, t[3], q)
(* an extra peptide that starts at a phantom site                                             *)
SiblingFragmentL(T, q) ==
  \E t \in T : \E c \in {y \in t[2] : y > t[3]} :
     Cardinality({y \in t[2] : t[3] < y /\ y < c}) <= C.cfg.misc /\ q = SubSeq(t[1], t[3] + 1, c)
(* a missing peptide that spans a phantom site (the phantom site uses up its miscleavage allowance) *)
SiblingMissing(T, q) ==
  \E t \in T : \E a \in {y \in t[2] : y < t[3]} : \E c \in {y \in t[2] : y > t[3]} : Spells(t[1], a, c, q)

RefsOk == \A k \in 1..Len(C.txs) : \A j \in 1..Len(C.txs[k].vars) :
             RefMatches(C.txs[k].tx.seq, C.txs[k].vars[j])

(* alternative-splicing records: the replace-[start,end)-by-alt form the harness derived from the   *)
(* record (callVariant's internal anchoring) must denote exactly what Rmats.tla says the record     *)
(* means on this transcript, and the structure given must spell the transcript                      *)
AsOk == \A k \in 1..Len(C.txs) : \A j \in 1..Len(C.txs[k].as) :
          LET a == C.txs[k].as[j]
              st == C.txs[k].struct
              t == [strand |-> st.tx.strand, exons |-> st.tx.exons]
              v == C.txs[k].vars[a.idx]
          IN /\ TxSeq(st.chrom, t) = C.txs[k].tx.seq
             /\ Apply(C.txs[k].tx.seq, {[start |-> v.start, end |-> v.end, ref |-> v.ref, alt |-> v.alt, id |-> v.id]})
                  = Denote(st.chrom, st.gene, t, a)

Verdict ==
  LET cpl == Complete  snd == Sound  obs == Observed
      missing == cpl \ obs  extra == obs \ snd IN
  IF ~RefsOk \/ ~AsOk THEN PrintT(<<"V", i, "badcase">>)
  ELSE IF missing = {} /\ extra = {} THEN PrintT(<<"V", i, "ok", Cardinality(cpl)>>)
  ELSE LET ctx == (\A q \in missing : MissingExplained(q)) /\ (\A q \in extra : ExtraExplained(q))
           T == IF missing \cup extra = {} THEN {} ELSE SibTriples
           sib == T # {} /\ (\A q \in extra : SiblingFragment(T, q) \/ SiblingFragmentL(T, q)) /\ (\A q \in missing : SiblingMissing(T, q)) IN
       PrintT(<<"V", i, IF sib THEN "sibling" ELSE IF ctx THEN "context" ELSE "diff", "missing", missing, "extra", extra>>)
=============================================================================
