--------------------------- MODULE AnnotationTrace ---------------------------
(* C11: observations of the real reference model (coordinates, sequences,   *)
(* ORF / Sec positions, parsed models) checked against Annotation.tla for    *)
(* every position of every gene and transcript of each recorded annotation.  *)
(* CASES_FILE: array of [chrom, genes: [gene], txs: [tx], obs]               *)
EXTENDS Annotation, TLC, Json, IOUtils

Cases == JsonDeserialize(IOEnv.CASES_FILE)
VARIABLE i
Init == i \in 1..Len(Cases)
Next == FALSE /\ i' = i

C == Cases[i]
Clause(name, ok) == ok \/ PrintT(<<"V", i, name>>)

GeneOf(t) == C.genes[t.gene]

(* -- laws of the definitional layer itself (design-level)                    *)
SpecLaws ==
  /\ \A gi \in 1..Len(C.genes) : LET g == C.genes[gi] IN
       /\ \A k \in 0..(GeneLen(g) - 1) : G2Gene(g, Gene2G(g, k)) = k
       /\ \A x \in g.start..(g.end - 1) : Gene2G(g, G2Gene(g, x)) = x
  /\ \A ti \in 1..Len(C.txs) : LET t == C.txs[ti] IN
       /\ \A k \in 0..(TxLen(t) - 1) : G2Tx(t, Tx2G(t, k)) = k
       /\ \A x \in (t.exons[1][1] - 1)..t.exons[Len(t.exons)][2] :
            IF Exonic(t, x) THEN Tx2G(t, G2Tx(t, x)) = x ELSE G2Tx(t, x) = Undef
       /\ TxLen(t) = Len(TxSeq(C.chrom, t))

(* -- the implementation                                                      *)
GeneObs ==
  \A gi \in 1..Len(C.genes) : LET g == C.genes[gi]  o == C.obs.genes[gi] IN
    /\ Clause("gene_seq", o.seq = GeneSeq(C.chrom, g))
    /\ Clause("genomic_to_gene",
         \A k \in 1..Len(o.g2gene) : o.g2gene[k] = G2Gene(g, g.start - 2 + k))
    /\ Clause("gene_to_genomic",
         \A k \in 1..Len(o.gene2g) : o.gene2g[k] = Gene2G(g, k - 1))

TxObs ==
  \A ti \in 1..Len(C.txs) : LET t == C.txs[ti]  o == C.obs.txs[ti]  g == GeneOf(t) IN
    /\ Clause("tx_seq", o.seq = TxSeq(C.chrom, t))
    /\ Clause("transcript_to_genomic",
         \A k \in 1..Len(o.tx2g) : o.tx2g[k] = Tx2G(t, k - 1))
    /\ Clause("genomic_to_transcript",     \* get_transcript_index: positions from start-1 to end
         \A k \in 1..Len(o.g2tx) : o.g2tx[k] = G2Tx(t, t.exons[1][1] - 2 + k))
    /\ Clause("gene_to_transcript",
         \A k \in 1..Len(o.gene2tx) : o.gene2tx[k] = G2Tx(t, Gene2G(g, k - 1)))
    /\ Clause("orf",
         IF HasCds(t) THEN o.orf = <<OrfStart(t), OrfEnd(t)>> ELSE o.orf = <<-1, -1>>)
    /\ Clause("sec", SecOk(t) /\ {o.sec[k] : k \in 1..Len(o.sec)} = SecStarts(t)
                     /\ \A k \in 1..Len(o.sec_end) : o.sec_end[k] = o.sec[k] + 3)
    /\ Clause("cdna",
         HasCds(t) =>
           LET x == ConcatExons(C.chrom, [k \in 1..Len(t.cds) |-> <<t.cds[k][1], t.cds[k][2]>>], 1)
           IN o.cdna = (IF t.strand = 1 THEN x ELSE RevComp(x)))
    (* models returned by the fully parsed annotation, by the indexed one and  *)
    (* after a GTF write / re-read all describe the same features              *)
    /\ Clause("model_full", o.model_full = o.model_want)
    /\ Clause("model_disk", o.model_disk = o.model_want)
    /\ Clause("model_rewritten", o.model_rewritten = o.model_want)

Verdict ==
  /\ Clause("SpecLaws", SpecLaws)
  /\ GeneObs /\ TxObs
  /\ PrintT(<<"V", i, "done">>)
=============================================================================
