-------------------------------- MODULE Parsers --------------------------------
(***************************************************************************)
(* Definitional layer for the upstream-tool parsers: what a reported event  *)
(* means on the chromosome, and what an emitted GVF record denotes.         *)
(***************************************************************************)
EXTENDS Annotation

(* a small genomic event: the bases [s, e) of the chromosome (forward strand,  *)
(* 0-based) are replaced by `allele` (forward strand); insertion: s = e          *)
ApplyGenomic(chrom, ev) == Slice(chrom, 0, ev.s) \o ev.allele \o Slice(chrom, ev.e, Len(chrom))

(* the gene re-extracted from the edited chromosome (the event lies inside it)   *)
GeneAfter(chrom, g, ev) ==
  LET g2 == [g EXCEPT !.end = g.end + Len(ev.allele) - (ev.e - ev.s)]
  IN GeneSeq(ApplyGenomic(chrom, ev), g2)

(* what a small-variant GVF record [start, end, ref, alt] (gene coordinates)      *)
(* denotes: the gene sequence with [start, end) replaced by alt                   *)
DenoteSmall(geneSeq, rec) == Slice(geneSeq, 0, rec.start) \o rec.alt \o Slice(geneSeq, rec.end, Len(geneSeq))
RefOk(geneSeq, rec) == Slice(geneSeq, rec.start, rec.end) = rec.ref

(* VEP: Location / Allele columns -> event.  loc = <<a, b>> 1-based inclusive     *)
(* (a = b for one position), allele = forward-strand allele or <<"-">>            *)
VepKind(loc, allele) ==
  IF allele = <<"-">> THEN "deletion"
  ELSE IF loc[1] = loc[2] THEN (IF Len(allele) = 1 THEN "snv" ELSE "single_position_multibase")
  ELSE IF loc[2] - loc[1] = 1 THEN "insertion"            \* the two flanking bases
  ELSE "substitution"                                      \* three or more bases replaced
VepEvent(loc, allele) ==
  LET k == VepKind(loc, allele) IN
  CASE k = "deletion" -> [s |-> loc[1] - 1, e |-> loc[2], allele |-> <<>>]
    [] k = "insertion" -> [s |-> loc[1], e |-> loc[1], allele |-> allele]
    [] OTHER -> [s |-> loc[1] - 1, e |-> loc[2], allele |-> allele]

(* the event touches the transcript boundary: it reaches the first base of the    *)
(* transcript (in transcript orientation) or extends past its last base           *)
TxFirst(t) == IF t.strand = 1 THEN t.exons[1][1] ELSE t.exons[Len(t.exons)][2] - 1
TxLast(t) == IF t.strand = 1 THEN t.exons[Len(t.exons)][2] - 1 ELSE t.exons[1][1]
(* footprint of the event: the replaced bases, or for an insertion its two flanking   *)
(* bases (the record has to be anchored on one of them)                                *)
IsInsertion(ev) == ev.s = ev.e
FootLo(ev) == IF IsInsertion(ev) THEN ev.s - 1 ELSE ev.s          \* lowest genomic base touched
FootHi(ev) == IF IsInsertion(ev) THEN ev.s ELSE ev.e - 1          \* highest genomic base touched
TouchesStart(t, ev) == IF t.strand = 1 THEN FootLo(ev) <= TxFirst(t) ELSE FootHi(ev) >= TxFirst(t)
BeyondEnd(t, ev) == IF t.strand = 1 THEN FootHi(ev) > TxLast(t) ELSE FootLo(ev) < TxLast(t)
InGene(g, ev) == FootLo(ev) >= g.start /\ FootHi(ev) < g.end
StrictlyInside(t, ev) ==
  LET lo == t.exons[1][1]  hi == t.exons[Len(t.exons)][2] IN ev.s > lo + 1 /\ ev.e < hi - 1

(***************************************************************************)
(* CIRCexplorer: a row reports genomic blocks <<a, b>> (0-based half-open,  *)
(* ascending).  The circRNA consists of those blocks; in gene coordinates   *)
(* a block is the strand-corrected interval.                                *)
(***************************************************************************)
BlockInGene(g, blk) ==
  IF g.strand = 1 THEN <<G2Gene(g, blk[1]), G2Gene(g, blk[2] - 1) + 1>>
  ELSE <<G2Gene(g, blk[2] - 1), G2Gene(g, blk[1]) + 1>>
CircFragmentsExpected(g, blocks) == {BlockInGene(g, blocks[k]) : k \in 1..Len(blocks)}
(* the circular sequence: the genomic blocks in transcript orientation           *)
RECURSIVE ConcatBlocks(_, _, _)
ConcatBlocks(chrom, blocks, k) == IF k > Len(blocks) THEN <<>> ELSE Slice(chrom, blocks[k][1], blocks[k][2]) \o ConcatBlocks(chrom, blocks, k + 1)
CircSeqExpected(chrom, g, blocks) ==
  LET s == ConcatBlocks(chrom, blocks, 1) IN IF g.strand = 1 THEN s ELSE RevComp(s)
BackspliceExpected(g, blocks) == BlockInGene(g, <<blocks[1][1], blocks[Len(blocks)][2]>>)

IsExonOf(t, blk) == \E k \in 1..Len(t.exons) : t.exons[k][1] = blk[1] /\ t.exons[k][2] = blk[2]
(* introns of t in genomic coordinates                                            *)
Introns(t) == {<<t.exons[k][2], t.exons[k + 1][1]>> : k \in 1..(Len(t.exons) - 1)}
IsIntronOf(t, blk) == blk \in Introns(t)
(* offsets of a reported intron block relative to the annotated intron, in         *)
(* transcript orientation: <<start offset, end offset>>                            *)
IntronOffsets(t, blk, iv) ==
  IF t.strand = 1 THEN <<blk[1] - iv[1], blk[2] - iv[2]>> ELSE <<iv[2] - blk[2], iv[1] - blk[1]>>

(***************************************************************************)
(* Fusion: left breakpoint lb = 0-based genomic position of the last donor  *)
(* base kept, right breakpoint rb = 0-based genomic position of the first    *)
(* acceptor base kept (all three tools report them 1-based).                 *)
(***************************************************************************)
DonorPos(g, lb) == G2Gene(g, lb) + 1        \* gene coordinate just past the last donor base: the record's position
AcceptorPos(g, rb) == G2Gene(g, rb)         \* gene coordinate of the first acceptor base
InSpan(t, x) == t.exons[1][1] <= x /\ x < t.exons[Len(t.exons)][2]

(* x lies before-or-at y in the orientation of transcript t                       *)
UpTo(t, x, y) == IF t.strand = 1 THEN x <= y ELSE x >= y
Base(chrom, t, x) == IF t.strand = 1 THEN chrom[x + 1] ELSE Complement(chrom[x + 1])
SpanPos(t) == (t.exons[1][1])..(t.exons[Len(t.exons)][2] - 1)

(* genomic positions of the donor part: exonic bases up to lb, plus - when lb is   *)
(* intronic - the intronic bases between the last exon before it and lb             *)
DonorSet(t, lb) ==
  LET ex == {x \in SpanPos(t) : Exonic(t, x) /\ UpTo(t, x, lb)}
      retained == IF Exonic(t, lb) THEN {}
                  ELSE {x \in SpanPos(t) : ~Exonic(t, x) /\ UpTo(t, x, lb) /\ \A e \in ex : UpTo(t, e, x)}
  IN ex \cup retained
AcceptorSet(t, rb) ==
  LET ex == {x \in SpanPos(t) : Exonic(t, x) /\ UpTo(t, rb, x)}
      retained == IF Exonic(t, rb) THEN {}
                  ELSE {x \in SpanPos(t) : ~Exonic(t, x) /\ UpTo(t, rb, x) /\ \A e \in ex : UpTo(t, x, e)}
  IN ex \cup retained

RECURSIVE SeqOfPositions(_, _, _)
SeqOfPositions(chrom, t, P) ==
  IF P = {} THEN <<>>
  ELSE LET x == CHOOSE a \in P : \A b \in P : UpTo(t, a, b)
       IN <<Base(chrom, t, x)>> \o SeqOfPositions(chrom, t, P \ {x})

DonorSeq(chrom, t, lb) == SeqOfPositions(chrom, t, DonorSet(t, lb))
AcceptorSeq(chrom, t, rb) == SeqOfPositions(chrom, t, AcceptorSet(t, rb))
FusedSeq(chrom, td, lb, ta, rb) == DonorSeq(chrom, td, lb) \o AcceptorSeq(chrom, ta, rb)
=============================================================================
