-------------------------------- MODULE Parsers --------------------------------
(***************************************************************************)
(* Definitional layer for the upstream-tool parsers: what a reported event  *)
(* means on the chromosome, and what an emitted GVF record denotes.         *)
(***************************************************************************)
EXTENDS Annotation

(* a small genomic event: the bases [s, e) of the chromosome (forward strand,  *)
(* 0-based) are replaced by `allele` (forward strand); insertion: s = e          *)
ApplyGenomic(chrom, ev) == Slice(chrom, 0, ev.s) \o ev.allele \o Slice(chrom, ev.e, Len(chrom))

(* the gene re-extracted from the edited chromosome (the event lies inside it)   *)
GeneAfter(chrom, g, ev) ==
  LET g2 == [g EXCEPT !.end = g.end + Len(ev.allele) - (ev.e - ev.s)]
  IN GeneSeq(ApplyGenomic(chrom, ev), g2)

(* what a small-variant GVF record [start, end, ref, alt] (gene coordinates)      *)
(* denotes: the gene sequence with [start, end) replaced by alt                   *)
DenoteSmall(geneSeq, rec) == Slice(geneSeq, 0, rec.start) \o rec.alt \o Slice(geneSeq, rec.end, Len(geneSeq))
RefOk(geneSeq, rec) == Slice(geneSeq, rec.start, rec.end) = rec.ref

(* VEP: Location / Allele columns -> event.  loc = <<a, b>> 1-based inclusive     *)
(* (a = b for one position), allele = forward-strand allele or <<"-">>            *)
VepKind(loc, allele) ==
  IF allele = <<"-">> THEN "deletion"
  ELSE IF loc[1] = loc[2] THEN (IF Len(allele) = 1 THEN "snv" ELSE "single_position_multibase")
  ELSE IF loc[2] - loc[1] = 1 THEN "insertion"            \* the two flanking bases
  ELSE "substitution"                                      \* three or more bases replaced
VepEvent(loc, allele) ==
  LET k == VepKind(loc, allele) IN
  CASE k = "deletion" -> [s |-> loc[1] - 1, e |-> loc[2], allele |-> <<>>]
    [] k = "insertion" -> [s |-> loc[1], e |-> loc[1], allele |-> allele]
    [] OTHER -> [s |-> loc[1] - 1, e |-> loc[2], allele |-> allele]

(* the event touches the transcript boundary: it reaches the first base of the    *)
(* transcript (in transcript orientation) or extends past its last base           *)
TxFirst(t) == IF t.strand = 1 THEN t.exons[1][1] ELSE t.exons[Len(t.exons)][2] - 1
TxLast(t) == IF t.strand = 1 THEN t.exons[Len(t.exons)][2] - 1 ELSE t.exons[1][1]
(* footprint of the event: the replaced bases, or for an insertion its two flanking   *)
(* bases (the record has to be anchored on one of them)                                *)
IsInsertion(ev) == ev.s = ev.e
FootLo(ev) == IF IsInsertion(ev) THEN ev.s - 1 ELSE ev.s          \* lowest genomic base touched
FootHi(ev) == IF IsInsertion(ev) THEN ev.s ELSE ev.e - 1          \* highest genomic base touched
TouchesStart(t, ev) == IF t.strand = 1 THEN FootLo(ev) <= TxFirst(t) ELSE FootHi(ev) >= TxFirst(t)
BeyondEnd(t, ev) == IF t.strand = 1 THEN FootHi(ev) > TxLast(t) ELSE FootLo(ev) < TxLast(t)
InGene(g, ev) == FootLo(ev) >= g.start /\ FootHi(ev) < g.end
StrictlyInside(t, ev) ==
  LET lo == t.exons[1][1]  hi == t.exons[Len(t.exons)][2] IN ev.s > lo + 1 /\ ev.e < hi - 1
=============================================================================
