CONSTANTS
  NTX = 3
  MaxThreads = 3
  MaxFail = 1
  MaxInvalid = 1
  Rule = "batch"
  CircFall = FALSE
SPECIFICATION Spec
PROPERTY Terminates
PROPERTY RightEnding
