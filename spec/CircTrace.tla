------------------------------- MODULE CircTrace -------------------------------
(* C17: parseCIRCexplorer.  CASES_FILE: array of                                  *)
(* [chrom, gene, tx, blocks, kind ("circRNA"|"ciRNA"), enough (thresholds met),     *)
(*  startRange, endRange, outcome ("record"|"absent"), frags, seq, bsj, idOk]       *)
EXTENDS Peptides, Parsers, TLC, Json, IOUtils
Cases == JsonDeserialize(IOEnv.CASES_FILE)
ToSet(s) == {s[i] : i \in 1..Len(s)}
VARIABLE i
Init == i \in 1..Len(Cases)
Next == FALSE /\ i' = i
C == Cases[i]
Clause(name, ok) == ok \/ PrintT(<<"V", i, name>>)

AllExons == \A k \in 1..Len(C.blocks) : IsExonOf(C.tx, C.blocks[k])
ExactIntron == Len(C.blocks) = 1 /\ IsIntronOf(C.tx, C.blocks[1])
(* the reported intron starts outside the tolerated window of every annotated intron *)
StartOutOfRange ==
  Len(C.blocks) = 1 /\ \A iv \in Introns(C.tx) :
     LET o == IntronOffsets(C.tx, C.blocks[1], iv) IN o[1] < C.startRange[1] \/ o[1] > C.startRange[2]

(* an annotated intron accepts a reported block when the start offset is inside the start   *)
(* range and the end offset is inside the end range or the block ends before the next exon *)
Accepts(iv) ==
  LET o == IntronOffsets(C.tx, C.blocks[1], iv) IN
  /\ o[1] >= C.startRange[1] /\ o[1] <= C.startRange[2]
  /\ ((o[2] >= C.endRange[1] /\ o[2] <= C.endRange[2]) \/ o[2] <= 0)
SomeIntronAccepts == Len(C.blocks) = 1 /\ \E iv \in Introns(C.tx) : Accepts(iv)

(***************************************************************************)
(* Peptides of a circRNA (C01 / C02 on circular backbones, no further       *)
(* variants): the circle is read as four consecutive copies; translation     *)
(* starts at every ATG of the first copy in any frame and runs to the next   *)
(* stop or to the end of the fourth copy (fragments reaching that open end   *)
(* are not reported); not reported either: digestion products of the linear  *)
(* host transcript and canonical peptides.  Small variants of the host       *)
(* transcript that lie on the circle are carried by every copy alike.        *)
(***************************************************************************)
Circle == CircSeqExpected(C.chrom, C.gene, C.blocks)
(* small variants of the host transcript in circle coordinates (C.cvars) that lie inside a     *)
(* fragment (C.fragIdx: <<first, end>> of each fragment on the circle) and not on its first     *)
(* three bases; the same haplotype is carried by every copy of the circle                       *)
CVars == {[start |-> C.cvars[k].start, end |-> C.cvars[k].end, ref |-> C.cvars[k].ref, alt |-> C.cvars[k].alt, id |-> C.cvars[k].id] :
            k \in 1..Len(C.cvars)}
UsableC == {v \in CVars : \E j \in 1..Len(C.fragIdx) : C.fragIdx[j][1] + 3 <= v.start /\ v.end <= C.fragIdx[j][2]}
CircHaps == {H \in SUBSET UsableC : Compatible(H, 0)}
CircPepsOf(H, dropTail) ==
  LET c == Apply(Circle, H)  four == c \o c \o c \o c
  IN UNION {LET o == OrfOf(four, k, {}) IN OrfPeptides(o.pep, C.cfg, TRUE, o.open, dropTail) : k \in {j \in 0..(Len(c) - 1) : IsStart(four, j)}}
CircPeps(dropTail) == UNION {CircPepsOf(H, dropTail) : H \in CircHaps}
HostTx == [seq |-> C.host.seq, coding |-> C.host.coding, orfStart |-> C.host.orfStart, orfEnd |-> C.host.orfEnd,
           startNF |-> C.host.startNF, endNF |-> C.host.endNF, sec |-> ToSet(C.host.sec)]
(* completeness: every compatible subset of the variants that lie inside a fragment, off its first four bases and its last *)
(* base - the tool's (in-memory pool) lookup is strict on both sides of [fragment start + 3, fragment end); a variant on the *)
(* fourth or the last base of a fragment is allowed (Sound) but not required                                                 *)
UsableCStrict == {v \in UsableC : \E j \in 1..Len(C.fragIdx) : C.fragIdx[j][1] + 4 <= v.start /\ v.end < C.fragIdx[j][2]}
CircHapsStrict == {H \in SUBSET UsableCStrict : Compatible(H, 0)}
CircRequired == UNION {CircPepsOf(H, TRUE) : H \in CircHapsStrict} \ (RefPeptides(HostTx, C.cfg) \cup CanonicalPool(C.proteome, C.cfg))
CircObs == {C.allobs[k] : k \in 1..Len(C.allobs)}
CircRefsOk == \A v \in CVars : Slice(Circle, v.start, v.end) = v.ref

Verdict ==
  /\ Clause("fragments", C.outcome = "record" => ToSet(C.frags) = CircFragmentsExpected(C.gene, C.blocks))
  /\ Clause("sequence", C.outcome = "record" => C.seq = CircSeqExpected(C.chrom, C.gene, C.blocks))
  /\ Clause("id_backsplice", C.outcome = "record" => C.bsj = BackspliceExpected(C.gene, C.blocks) /\ C.idOk)
  /\ Clause("below_threshold_skipped", ~C.enough => C.outcome = "absent")
  /\ Clause("known_exons_emitted", (C.enough /\ C.kind = "circRNA" /\ AllExons) => C.outcome = "record")
  /\ Clause("unknown_exons_skipped", (C.kind = "circRNA" /\ ~AllExons) => C.outcome = "absent")
  /\ Clause("exact_intron_emitted", (C.enough /\ C.kind = "ciRNA" /\ ExactIntron /\ 0 >= C.startRange[1] /\ 0 <= C.startRange[2]) => C.outcome = "record")
  /\ Clause("intron_start_tolerance", (C.kind = "ciRNA" /\ StartOutOfRange) => C.outcome = "absent")
  /\ Clause("intron_tolerance", (C.enough /\ C.kind = "ciRNA") => ((C.outcome = "record") = SomeIntronAccepts))
  /\ Clause("circ_variant_refs", C.cvran => CircRefsOk)
  /\ Clause("circ_peptides_sound", (C.cvran /\ Len(C.cpeps) > 0) => LET CP == CircPeps(FALSE) IN \A k \in 1..Len(C.cpeps) : C.cpeps[k] \in CP)
  /\ Clause("circ_peptides_complete", (C.cvran /\ C.outcome = "record") => CircRequired \subseteq CircObs)
  /\ PrintT(<<"V", i, "done">>)
=============================================================================
