------------------------------ MODULE Annotation ------------------------------
(***************************************************************************)
(* Definitional layer: genes, transcripts, coordinate systems, sequences.  *)
(* genomic positions, gene positions and transcript positions are 0-based; *)
(* intervals <<s, e>> are half-open; strand is 1 or -1.                    *)
(*   gene = [start, end, strand]                                           *)
(*   tx   = [strand, exons (ascending genomic intervals), cds (ascending   *)
(*           genomic intervals with phase: <<s, e, frame>>), utr (genomic  *)
(*           intervals), sec (genomic intervals)]                          *)
(***************************************************************************)
EXTENDS Bio

Undef == -1

G2Gene(g, x) == IF x < g.start \/ x >= g.end THEN Undef
                ELSE IF g.strand = 1 THEN x - g.start ELSE g.end - 1 - x
Gene2G(g, i) == IF g.strand = 1 THEN g.start + i ELSE g.end - 1 - i
GeneLen(g) == g.end - g.start
GeneSeq(chrom, g) ==
  LET s == Slice(chrom, g.start, g.end) IN IF g.strand = 1 THEN s ELSE RevComp(s)

ExLen(e) == e[2] - e[1]
RECURSIVE SumLen(_, _)
SumLen(ex, k) == IF k = 0 THEN 0 ELSE ExLen(ex[k]) + SumLen(ex, k - 1)
TxLen(t) == SumLen(t.exons, Len(t.exons))

(* exons in transcript orientation                                          *)
OrdExons(t) == IF t.strand = 1 THEN t.exons
               ELSE [k \in 1..Len(t.exons) |-> t.exons[Len(t.exons) + 1 - k]]

Exonic(t, x) == \E k \in 1..Len(t.exons) : t.exons[k][1] <= x /\ x < t.exons[k][2]

(* genomic -> transcript; Undef when intronic or outside                      *)
G2Tx(t, x) ==
  IF ~Exonic(t, x) THEN Undef
  ELSE LET oe == OrdExons(t)
           k == CHOOSE j \in 1..Len(oe) : oe[j][1] <= x /\ x < oe[j][2]
           before == SumLen(oe, k - 1)
       IN before + (IF t.strand = 1 THEN x - oe[k][1] ELSE oe[k][2] - 1 - x)

(* transcript -> genomic                                                      *)
Tx2G(t, i) ==
  IF i < 0 \/ i >= TxLen(t) THEN Undef
  ELSE LET oe == OrdExons(t)
           k == CHOOSE j \in 1..Len(oe) : SumLen(oe, j - 1) <= i /\ i < SumLen(oe, j)
           off == i - SumLen(oe, k - 1)
       IN IF t.strand = 1 THEN oe[k][1] + off ELSE oe[k][2] - 1 - off

RECURSIVE ConcatExons(_, _, _)
ConcatExons(chrom, ex, k) ==
  IF k > Len(ex) THEN <<>> ELSE Slice(chrom, ex[k][1], ex[k][2]) \o ConcatExons(chrom, ex, k + 1)
TxSeq(chrom, t) ==
  LET s == ConcatExons(chrom, t.exons, 1) IN IF t.strand = 1 THEN s ELSE RevComp(s)

(* first / last base of an interval in transcript orientation                 *)
FirstBase(t, iv) == IF t.strand = 1 THEN iv[1] ELSE iv[2] - 1
LastBase(t, iv) == IF t.strand = 1 THEN iv[2] - 1 ELSE iv[1]

OrdIvs(t, ivs) == IF t.strand = 1 THEN ivs ELSE [k \in 1..Len(ivs) |-> ivs[Len(ivs) + 1 - k]]

(* the UTR segments that lie downstream of the CDS                            *)
Utr3(t) ==
  LET c == OrdIvs(t, t.cds)
      lastCds == G2Tx(t, LastBase(t, c[Len(c)]))
  IN {k \in 1..Len(t.utr) : G2Tx(t, FirstBase(t, t.utr[k])) > lastCds}

HasCds(t) == Len(t.cds) > 0
OrfStart(t) ==
  LET c == OrdIvs(t, t.cds) IN G2Tx(t, FirstBase(t, c[1])) + c[1][3]
OrfEnd(t) ==
  LET u3 == Utr3(t)
      lim == IF u3 = {} THEN TxLen(t)
             ELSE LET firsts == {G2Tx(t, FirstBase(t, t.utr[k])) : k \in u3}
                  IN CHOOSE m \in firsts : \A y \in firsts : m <= y
  IN lim - ((lim - OrfStart(t)) % 3)

SecStarts(t) == {G2Tx(t, FirstBase(t, t.sec[k])) : k \in 1..Len(t.sec)}
SecOk(t) == \A k \in 1..Len(t.sec) :
              G2Tx(t, LastBase(t, t.sec[k])) = G2Tx(t, FirstBase(t, t.sec[k])) + 2
=============================================================================
