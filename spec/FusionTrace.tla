------------------------------ MODULE FusionTrace ------------------------------
(* C15: fusion parsers (STAR-Fusion, FusionCatcher, Arriba) and callVariant on     *)
(* their output.  CASES_FILE: array of                                             *)
(* [chrom, gd, ga (genes), dtx, atx (transcripts of the two genes), lb, rb (0-based), *)
(*  enough, known, records: [[d, a (indices), pos, accpos]],                         *)
(*  peps: [[d, a, seq]] (callVariant peptides labelled with that pair's fusion),     *)
(*  dinfo: [[coding, orfStart]] per donor transcript, cfg]                           *)
EXTENDS Peptides, Parsers, TLC, Json, IOUtils
Cases == JsonDeserialize(IOEnv.CASES_FILE)
ToSet(s) == {s[i] : i \in 1..Len(s)}
VARIABLE i
Init == i \in 1..Len(Cases)
Next == FALSE /\ i' = i
C == Cases[i]
Clause(name, ok) == ok \/ PrintT(<<"V", i, name>>)

EligiblePairs == {<<d, a>> : d \in {k \in 1..Len(C.dtx) : InSpan(C.dtx[k], C.lb)}, a \in {k \in 1..Len(C.atx) : InSpan(C.atx[k], C.rb)}}
GotPairs == {<<C.records[k].d, C.records[k].a>> : k \in 1..Len(C.records)}

(***************************************************************************)
(* Small variants of the donor and acceptor transcripts (C.dvars[d],        *)
(* C.avars[a]: transcript coordinates) on the fused sequence.  A donor       *)
(* variant is carried when it ends `margin` bases or more before the end of  *)
(* the donor's exonic part; an acceptor variant when it starts `margin`      *)
(* bases or more after the first exonic acceptor base kept (the acceptor's   *)
(* tail is the fused sequence's tail).  margin = 1 is what the tool takes     *)
(* (required); margin = 0 is the most that may be allowed.                    *)
(***************************************************************************)
TxExLen(t) == Cardinality({x \in SpanPos(t) : Exonic(t, x)})
DonorExLen(t, lb) == Cardinality({x \in SpanPos(t) : Exonic(t, x) /\ UpTo(t, x, lb)})
AccExStart(t, rb) == TxExLen(t) - Cardinality({x \in SpanPos(t) : Exonic(t, x) /\ UpTo(t, rb, x)})
Fused(d, a) == DonorSeq(C.chrom, C.dtx[d], C.lb) \o AcceptorSeq(C.chrom, C.atx[a], C.rb)
VRec(v, off) == [start |-> v.start + off, end |-> v.end + off, ref |-> v.ref, alt |-> v.alt, id |-> v.id]
HasVars == "dvars" \in DOMAIN C
FusedVars(d, a, margin) ==
  IF ~HasVars THEN {}
  ELSE LET ld == DonorExLen(C.dtx[d], C.lb)
           as == AccExStart(C.atx[a], C.rb)
           off == Len(Fused(d, a)) - TxExLen(C.atx[a])
           sidx == IF C.dinfo[d].coding THEN C.dinfo[d].orfStart + 3 ELSE 3
       IN {w \in {VRec(v, 0) : v \in {x \in ToSet(C.dvars[d]) : x.end <= ld - margin}} : Usable(w, sidx, <<0, 0>>)}
          \cup {VRec(v, off) : v \in {x \in ToSet(C.avars[a]) : x.start >= as + margin}}
FusedHaps(d, a, margin) ==
  LET sidx == IF C.dinfo[d].coding THEN C.dinfo[d].orfStart + 3 ELSE 3
  IN {H \in SUBSET FusedVars(d, a, margin) : Compatible(H, sidx)}
FusedRefsOk(d, a) == \A v \in FusedVars(d, a, 0) : RefMatches(Fused(d, a), v)

(* peptides of the fused sequence: from the donor's annotated start, or from every   *)
(* ATG that begins before the junction when the donor is non-coding                  *)
FusionPeptides(d, a) ==
  UNION {LET s == Apply(Fused(d, a), H)
             starts == IF C.dinfo[d].coding THEN {C.dinfo[d].orfStart} ELSE AtgStarts(s)   \* any start of the fused sequence (the property only asks for a digestion product of it)
         IN UNION {LET o == OrfOf(s, x, {}) IN OrfPeptides(o.pep, C.cfg, TRUE, o.open, FALSE) : x \in starts}
         : H \in FusedHaps(d, a, 0)}

(* completeness (C01 on fusion backbones, coding donors whose breakpoint lies after the start     *)
(* codon): every peptide of the fused sequence read from the donor's annotated start, except      *)
(* open-ended tails, digestion products of the unmodified donor transcript and canonical          *)
(* peptides, is in the FASTA                                                                      *)
Canonical == CanonicalPool(C.proteome, C.cfg)
DonorRef(d) == LET o == OrfOf(TxSeq(C.chrom, C.dtx[d]), C.dinfo[d].orfStart, {}) IN OrfPeptides(o.pep, C.cfg, TRUE, o.open, FALSE)
(* a breakpoint on the last intronic base before an exon is written as a record positioned on    *)
(* that exon's first base: the GVF record cannot say whether the intron was retained, so nothing  *)
(* is required for such rows                                                                      *)
AmbiguousBreak(t, lb) == ~Exonic(t, lb) /\ Exonic(t, IF t.strand = 1 THEN lb + 1 ELSE lb - 1)
FusionRequired(d, a) ==
  IF ~C.dinfo[d].coding \/ Len(DonorSeq(C.chrom, C.dtx[d], C.lb)) < C.dinfo[d].orfStart + 3 \/ AmbiguousBreak(C.dtx[d], C.lb) THEN {}
  ELSE UNION {LET o == OrfOf(Apply(Fused(d, a), H), C.dinfo[d].orfStart, {})
              IN OrfPeptides(o.pep, C.cfg, TRUE, o.open, TRUE) : H \in FusedHaps(d, a, 1)} \ (DonorRef(d) \cup Canonical)
AllObs == {C.allobs[k] : k \in 1..Len(C.allobs)}

Verdict ==
  /\ Clause("skipped_when_insufficient_or_unknown", (~C.enough \/ ~C.known) => Len(C.records) = 0)
  /\ Clause("one_record_per_eligible_pair",
       (C.enough /\ C.known) => GotPairs = EligiblePairs /\ Len(C.records) = Cardinality(EligiblePairs))
  /\ Clause("positions",
       \A k \in 1..Len(C.records) : C.records[k].pos = DonorPos(C.gd, C.lb) /\ C.records[k].accpos = AcceptorPos(C.ga, C.rb))
  /\ Clause("fusion_variant_refs", \A k \in 1..Len(C.records) : FusedRefsOk(C.records[k].d, C.records[k].a))
  /\ Clause("peptides_from_fused_sequence",
       \A k \in 1..Len(C.peps) : C.peps[k].seq \in FusionPeptides(C.peps[k].d, C.peps[k].a))
  /\ Clause("fusion_peptides_complete",
       C.cvran => \A k \in 1..Len(C.records) : FusionRequired(C.records[k].d, C.records[k].a) \subseteq AllObs)
  /\ PrintT(<<"V", i, "done">>)
=============================================================================
