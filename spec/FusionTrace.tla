------------------------------ MODULE FusionTrace ------------------------------
(* C15: fusion parsers (STAR-Fusion, FusionCatcher, Arriba) and callVariant on     *)
(* their output.  CASES_FILE: array of                                             *)
(* [chrom, gd, ga (genes), dtx, atx (transcripts of the two genes), lb, rb (0-based), *)
(*  enough, known, records: [[d, a (indices), pos, accpos]],                         *)
(*  peps: [[d, a, seq]] (callVariant peptides labelled with that pair's fusion),     *)
(*  dinfo: [[coding, orfStart]] per donor transcript, cfg]                           *)
EXTENDS Peptides, Parsers, TLC, Json, IOUtils
Cases == JsonDeserialize(IOEnv.CASES_FILE)
ToSet(s) == {s[i] : i \in 1..Len(s)}
VARIABLE i
Init == i \in 1..Len(Cases)
Next == FALSE /\ i' = i
C == Cases[i]
Clause(name, ok) == ok \/ PrintT(<<"V", i, name>>)

EligiblePairs == {<<d, a>> : d \in {k \in 1..Len(C.dtx) : InSpan(C.dtx[k], C.lb)}, a \in {k \in 1..Len(C.atx) : InSpan(C.atx[k], C.rb)}}
GotPairs == {<<C.records[k].d, C.records[k].a>> : k \in 1..Len(C.records)}

(***************************************************************************)
(* Small variants on the fused sequence.  C.dvars[d] / C.avars[a]: the       *)
(* small variants of the donor / acceptor GENE in gene coordinates           *)
(* [gs, ge, ref, alt, id, own], own = the record names this transcript.       *)
(* The exonic part of the fused sequence carries the transcript's own        *)
(* variants; a retained intronic stretch carries the variants of any          *)
(* transcript of the gene that lie in it (the variant is genomic).  A variant *)
(* is placed through the genomic positions it covers: all of them belong to   *)
(* one part (donor exonic, donor retained, acceptor retained, acceptor        *)
(* exonic) and are consecutive there.  strict: it does not touch the first or *)
(* last base of a retained stretch, the last exonic donor base or the first   *)
(* exonic acceptor base (what the tool takes; required) - otherwise allowed.   *)
(***************************************************************************)
Fused(d, a) == DonorSeq(C.chrom, C.dtx[d], C.lb) \o AcceptorSeq(C.chrom, C.atx[a], C.rb)
HasVars == "dvars" \in DOMAIN C
Cov(g, v) == {Gene2G(g, p) : p \in v.gs..(v.ge - 1)}
IdxIn(t, PP, x) == Cardinality({y \in PP : UpTo(t, y, x)}) - 1
FirstOf(t, PP) == CHOOSE x \in PP : \A y \in PP : UpTo(t, x, y)
LastOf(t, PP) == CHOOSE x \in PP : \A y \in PP : UpTo(t, y, x)
(* the variants of list L (gene g) placed on part PP of transcript t, the part starting at fused index off *)
Placed(L, g, t, PP, off, exonic, strict) ==
  {[start |-> off + IdxIn(t, PP, Gene2G(g, v.gs)), end |-> off + IdxIn(t, PP, Gene2G(g, v.gs)) + (v.ge - v.gs),
    ref |-> v.ref, alt |-> v.alt, id |-> v.id] :
     v \in {x \in ToSet(L) : /\ PP # {}
                              /\ Cov(g, x) \subseteq PP
                              /\ (exonic => x.own)
                              /\ IdxIn(t, PP, Gene2G(g, x.ge - 1)) - IdxIn(t, PP, Gene2G(g, x.gs)) = x.ge - x.gs - 1
                              /\ (strict => (exonic => (IF off = 0 THEN LastOf(t, PP) ELSE FirstOf(t, PP)) \notin Cov(g, x)))
                              /\ (strict => (~exonic => FirstOf(t, PP) \notin Cov(g, x) /\ LastOf(t, PP) \notin Cov(g, x)))}}
FusedVars(d, a, strict) ==
  IF ~HasVars THEN {}
  ELSE LET td == C.dtx[d]  ta == C.atx[a]
           dex == {x \in DonorSet(td, C.lb) : Exonic(td, x)}      dre == DonorSet(td, C.lb) \ dex
           aex == {x \in AcceptorSet(ta, C.rb) : Exonic(ta, x)}   are == AcceptorSet(ta, C.rb) \ aex
           sidx == IF C.dinfo[d].coding THEN C.dinfo[d].orfStart + 3 ELSE 3
           nd == Cardinality(dex)  ndr == Cardinality(dre)  nar == Cardinality(are)
       IN {w \in Placed(C.dvars[d], C.gd, td, dex, 0, TRUE, strict) : Usable(w, sidx, <<0, 0>>)}
          \cup Placed(C.dvars[d], C.gd, td, dre, nd, FALSE, strict)
          \cup Placed(C.avars[a], C.ga, ta, are, nd + ndr, FALSE, strict)
          \cup Placed(C.avars[a], C.ga, ta, aex, nd + ndr + nar, TRUE, strict)
FusedHaps(d, a, strict) ==
  LET sidx == IF C.dinfo[d].coding THEN C.dinfo[d].orfStart + 3 ELSE 3
  IN {H \in SUBSET FusedVars(d, a, strict) : Compatible(H, sidx)}
FusedRefsOk(d, a) == \A v \in FusedVars(d, a, FALSE) : RefMatches(Fused(d, a), v)

(* peptides of the fused sequence: from the donor's annotated start when the fused    *)
(* sequence still has a start codon there, or from every ATG when the donor is        *)
(* non-coding                                                                         *)
FusionPeptides(d, a) ==
  UNION {LET s == Apply(Fused(d, a), H)
             starts == IF C.dinfo[d].coding THEN {x \in {C.dinfo[d].orfStart} : IsStart(s, x)} ELSE AtgStarts(s)   \* any start of the fused sequence (the property only asks for a digestion product of it)
         IN UNION {LET o == OrfOf(s, x, {}) IN OrfPeptides(o.pep, C.cfg, TRUE, o.open, FALSE) : x \in starts}
         : H \in FusedHaps(d, a, FALSE)}

(* completeness (C01 on fusion backbones, coding donors whose exonic part kept includes the whole  *)
(* start codon): every peptide of the fused sequence read from the donor's annotated start, except      *)
(* open-ended tails, digestion products of the unmodified donor transcript and canonical          *)
(* peptides, is in the FASTA                                                                      *)
Canonical == CanonicalPool(C.proteome, C.cfg)
DonorRef(d) == LET o == OrfOf(TxSeq(C.chrom, C.dtx[d]), C.dinfo[d].orfStart, {}) IN OrfPeptides(o.pep, C.cfg, TRUE, o.open, FALSE)
(* a breakpoint on the last intronic base before an exon is written as a record positioned on    *)
(* that exon's first base: the GVF record cannot say whether the intron was retained, so nothing  *)
(* is required for such rows                                                                      *)
AmbiguousBreak(t, lb) == ~Exonic(t, lb) /\ Exonic(t, IF t.strand = 1 THEN lb + 1 ELSE lb - 1)
FusionRequired(d, a) ==
  IF ~C.dinfo[d].coding \/ Cardinality({x \in DonorSet(C.dtx[d], C.lb) : Exonic(C.dtx[d], x)}) < C.dinfo[d].orfStart + 3 \/ AmbiguousBreak(C.dtx[d], C.lb) THEN {}
  ELSE UNION {LET o == OrfOf(Apply(Fused(d, a), H), C.dinfo[d].orfStart, {})
              IN OrfPeptides(o.pep, C.cfg, TRUE, o.open, TRUE) : H \in FusedHaps(d, a, TRUE)} \ (DonorRef(d) \cup Canonical)
AllObs == {C.allobs[k] : k \in 1..Len(C.allobs)}

(* recorded finding (crash): a donor-side variant that leaves exactly one reference base before the junction together with an *)
(* acceptor-side variant (record start, i.e. the anchor base of an indel) one base after the junction                          *)
TightJunction(d, a) ==
  LET V == FusedVars(d, a, FALSE)  nd == Len(DonorSeq(C.chrom, C.dtx[d], C.lb))
  IN \E v \in V : \E w \in V : v.end = nd - 1 /\ w.start = nd + 1

Verdict ==
  /\ Clause("info_tight_junction", ~\E k \in 1..Len(C.records) : TightJunction(C.records[k].d, C.records[k].a))
  /\ Clause("skipped_when_insufficient_or_unknown", (~C.enough \/ ~C.known) => Len(C.records) = 0)
  /\ Clause("one_record_per_eligible_pair",
       (C.enough /\ C.known) => GotPairs = EligiblePairs /\ Len(C.records) = Cardinality(EligiblePairs))
  /\ Clause("positions",
       \A k \in 1..Len(C.records) : C.records[k].pos = DonorPos(C.gd, C.lb) /\ C.records[k].accpos = AcceptorPos(C.ga, C.rb))
  /\ Clause("fusion_variant_refs", \A k \in 1..Len(C.records) : FusedRefsOk(C.records[k].d, C.records[k].a))
  /\ Clause("peptides_from_fused_sequence",
       \A da \in {<<C.peps[k].d, C.peps[k].a>> : k \in 1..Len(C.peps)} :
          LET FP == FusionPeptides(da[1], da[2])      \* evaluated once per transcript pair
          IN \A k \in {j \in 1..Len(C.peps) : C.peps[j].d = da[1] /\ C.peps[j].a = da[2]} : C.peps[k].seq \in FP)
  /\ Clause("fusion_peptides_complete",
       C.cvran => \A k \in 1..Len(C.records) : FusionRequired(C.records[k].d, C.records[k].a) \subseteq AllObs)
  /\ PrintT(<<"V", i, "done">>)
=============================================================================
