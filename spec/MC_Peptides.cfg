INIT Init
NEXT Next
INVARIANT CompleteInSound
INVARIANT MonoVariants
INVARIANT MonoMisc
INVARIANT MonoMinLen
INVARIANT MonoMaxLen
INVARIANT MonoMinMw
INVARIANT SoundMonoFlags
INVARIANT CompleteFlagLoss
INVARIANT MonoAdj
INVARIANT NoReference
