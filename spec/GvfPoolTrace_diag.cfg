INIT TraceInit
NEXT TraceNext
INVARIANT Props
INVARIANT Progress
