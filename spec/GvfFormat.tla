------------------------------ MODULE GvfFormat ------------------------------
(***************************************************************************)
(* Definitional layer: the GVF text format of variant and circRNA records. *)
(* A line is modelled as its token sequence                                *)
(*    <<CHROM, POS, ID, REF, ALT, INFO>>   (QUAL and FILTER are always ".")*)
(* where POS is a number and INFO a sequence of <<KEY, value>> pairs whose *)
(* values are numbers for numeric attributes and strings otherwise.        *)
(* A record is [gene, start, end, id, ref, alt, kind, attrs] with 0-based  *)
(* half-open [start, end) in gene coordinates and attrs a sequence of      *)
(* <<KEY, value>> with 0-based positions.                                  *)
(***************************************************************************)
EXTENDS Naturals, Integers, Sequences, FiniteSets

PosAttrs == {"START", "DONOR_START", "ACCEPTER_START", "ACCEPTER_POSITION"}
SmallKinds == {"SNV", "INDEL", "MNV"}
Symbolic == {"Fusion", "Insertion", "Deletion", "Substitution"}

(* alleles are sequences of one-character strings, also the symbolic ones        *)
FUSION == <<"<", "F", "U", "S", "I", "O", "N", ">">>
INS == <<"<", "I", "N", "S", ">">>
DEL == <<"<", "D", "E", "L", ">">>
SUB == <<"<", "S", "U", "B", ">">>
AltToken(r) ==
  CASE r.kind \in SmallKinds -> r.alt
    [] r.kind = "Fusion" -> FUSION
    [] r.kind = "Insertion" -> INS
    [] r.kind = "Deletion" -> DEL
    [] r.kind = "Substitution" -> SUB

(* an attribute is <<KEY, number, text>>: number = -1 for textual values, text = "" for numeric ones *)
ShiftAttrs(attrs, d) ==
  [k \in 1..Len(attrs) |-> IF attrs[k][1] \in PosAttrs THEN <<attrs[k][1], attrs[k][2] + d, attrs[k][3]>> ELSE attrs[k]]

(* REF column: the full reference allele for small variants, its first base  *)
(* otherwise (r.ref is a sequence of one-character strings)                   *)
RefToken(r) == IF r.kind \in SmallKinds THEN r.ref ELSE <<r.ref[1]>>

Line(r) == [chrom |-> r.gene, pos |-> r.start + 1, id |-> r.id, ref |-> RefToken(r),
            alt |-> AltToken(r), info |-> ShiftAttrs(r.attrs, 1)]

AttrOf(info, key) == LET S == {k \in 1..Len(info) : info[k][1] = key} IN info[CHOOSE k \in S : TRUE][2]

KindOfLine(l) ==
  CASE l.alt = FUSION -> "Fusion" [] l.alt = INS -> "Insertion"
    [] l.alt = DEL -> "Deletion" [] l.alt = SUB -> "Substitution"
    [] OTHER -> IF Len(l.ref) = 1 /\ Len(l.alt) = 1 THEN "SNV"
                ELSE IF Len(l.ref) = 1 \/ Len(l.alt) = 1 THEN "INDEL" ELSE "MNV"

Parse(l) ==
  LET kind == KindOfLine(l)
      start == l.pos - 1
      end == CASE kind \in SmallKinds -> start + Len(l.ref)
               [] kind \in {"Fusion", "Insertion"} -> start + 1
               [] OTHER -> AttrOf(l.info, "END")
  IN [gene |-> l.chrom, start |-> start, end |-> end, id |-> l.id, ref |-> l.ref, alt |-> l.alt,
      kind |-> kind, attrs |-> ShiftAttrs(l.info, -1)]

(* a record as the parsers build it is well formed when ...                    *)
WellFormed(r) ==
  /\ r.kind \in SmallKinds => r.end = r.start + Len(r.ref)
  /\ r.kind \in {"Fusion", "Insertion"} => r.end = r.start + 1
  /\ r.kind \in {"Deletion", "Substitution"} =>
        \E k \in 1..Len(r.attrs) : r.attrs[k][1] = "END" /\ r.attrs[k][2] = r.end

(* round-trip laws                                                             *)
Normal(r) == [r EXCEPT !.ref = RefToken(r), !.alt = AltToken(r), !.kind = KindOfLine(Line(r))]
RoundTrip(r) == Parse(Line(r)) = Normal(r)
SecondGeneration(r) == Line(Parse(Line(r))) = Line(r)

(* circRNA records: [gene, start, id, offsets, lengths, introns, tx, symbol, gpos];      *)
(* the line keeps POS 0-based and lists OFFSET/LENGTH/INTRON as number lists            *)
CircLine(c) == [chrom |-> c.gene, pos |-> c.start, id |-> c.id,
                offsets |-> c.offsets, lengths |-> c.lengths, introns |-> c.introns,
                tx |-> c.tx, symbol |-> c.symbol, gpos |-> c.gpos]
CircParse(l) == [gene |-> l.chrom, start |-> l.pos, id |-> l.id, offsets |-> l.offsets,
                 lengths |-> l.lengths, introns |-> l.introns, tx |-> l.tx, symbol |-> l.symbol,
                 gpos |-> l.gpos]
CircFragments(c) == [k \in 1..Len(c.offsets) |-> <<c.start + c.offsets[k], c.start + c.offsets[k] + c.lengths[k]>>]
=============================================================================
