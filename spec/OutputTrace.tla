------------------------------ MODULE OutputTrace ------------------------------
(* C04: hygiene of what callVariant / callNovelORF / callAltTranslation wrote.  *)
(* CASES_FILE: array of [cfg, proteome, fasta: [[hdrs: [entry], seq]],           *)
(*                       table: [[seq, header, sub, start, end]] or <<>>,        *)
(*                       hasTable]                                               *)
EXTENDS Cleavage, TLC, Json, IOUtils
Cases == JsonDeserialize(IOEnv.CASES_FILE)
ToSet(s) == {s[i] : i \in 1..Len(s)}
VARIABLE i
Init == i \in 1..Len(Cases)
Next == FALSE /\ i' = i
C == Cases[i]
Clause(name, ok) == ok \/ PrintT(<<"V", i, name>>)

Canonical == CanonicalPool(C.proteome, C.cfg)
Seqs == [k \in 1..Len(C.fasta) |-> C.fasta[k].seq]

NonCanonical == \A k \in 1..Len(Seqs) : Seqs[k] \notin Canonical
WithinLimits == \A k \in 1..Len(Seqs) : Keep(Seqs[k], C.cfg)
Unique == \A j, k \in 1..Len(Seqs) : j # k => Seqs[j] # Seqs[k]
FastaPairs == UNION {{<<C.fasta[k].seq, C.fasta[k].hdrs[j]>> : j \in 1..Len(C.fasta[k].hdrs)} : k \in 1..Len(C.fasta)}
TablePairs == {<<C.table[k].seq, C.table[k].header>> : k \in 1..Len(C.table)}
TableMatches == C.hasTable => FastaPairs = TablePairs
RowsSlice == C.hasTable => \A k \in 1..Len(C.table) :
               C.table[k].sub = Slice(C.table[k].seq, C.table[k].start, C.table[k].end)   \* clipped at the peptide end
EntriesUnique == \* every header entry string occurs once in the whole FASTA (C03, second sentence)
  LET all == UNION {{<<k, j>> : j \in 1..Len(C.fasta[k].hdrs)} : k \in 1..Len(C.fasta)}
  IN \A a \in all : \A b \in all : a # b => C.fasta[a[1]].hdrs[a[2]] # C.fasta[b[1]].hdrs[b[2]]

Verdict ==
  /\ Clause("NonCanonical", NonCanonical)
  /\ Clause("WithinLimits", WithinLimits)
  /\ Clause("Unique", Unique)
  /\ Clause("TableMatches", TableMatches)
  /\ Clause("RowsSlice", RowsSlice)
  /\ Clause("EntriesUnique", EntriesUnique)
  /\ PrintT(<<"V", i, "done">>)
=============================================================================
