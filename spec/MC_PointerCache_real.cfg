CONSTANTS
  Keys = {"k1", "k2", "k3", "k4", "k5", "k6", "k7", "k8", "k9", "k10", "k11", "k12", "k13", "k14"}
  AbsentKeys = {"zz", "yy"}
  Size = 10
  MaxOps = 40
INIT Init
NEXT Next
INVARIANT AlwaysRight
INVARIANT AbsentFails
INVARIANT Consistent
INVARIANT PrintHist
