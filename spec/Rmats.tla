--------------------------------- MODULE Rmats ---------------------------------
(***************************************************************************)
(* Definitional layer for parseRMATS (C16).                                 *)
(*                                                                         *)
(* An rMATS event names two alternative forms of a stretch of a transcript: *)
(* the "inclusion" form (supported by IJC reads) and the "skipping" form     *)
(* (supported by SJC reads).  Each form is a chain of genomic exons          *)
(* <<s, e>> (0-based half-open, ascending) joined by splice junctions:       *)
(*    SE    inc = <<up, ex, down>>          skip = <<up, down>>              *)
(*    A5SS / A3SS (alternative end, flank genomically downstream:            *)
(*           A5SS on +, A3SS on -)   inc = <<long, flank>>  skip = <<short, flank>> *)
(*    A5SS / A3SS (alternative start, flank genomically upstream)            *)
(*                                   inc = <<flank, long>>  skip = <<flank, short>> *)
(*    MXE   inc = <<up, first, down>>       skip = <<up, second, down>>       *)
(*    RI    inc = <<retained>> (one exon spanning the intron)                 *)
(*          skip = <<up, down>>                                               *)
(* Only the junction coordinates of a chain matter: the start of its first   *)
(* exon and the end of its last exon belong to whatever the transcript has.  *)
(***************************************************************************)
EXTENDS Annotation

Chain(ev, form) ==
  CASE ev.type = "SE"  -> IF form = "inc" THEN <<ev.up, ev.ex, ev.down>> ELSE <<ev.up, ev.down>>
    [] ev.type = "MXE" -> IF form = "inc" THEN <<ev.up, ev.first, ev.down>> ELSE <<ev.up, ev.second, ev.down>>
    [] ev.type = "RI"  -> IF form = "inc" THEN <<<<ev.up[1], ev.down[2]>>>> ELSE <<ev.up, ev.down>>
    [] OTHER ->            \* A5SS / A3SS: geometry follows from the genomic order of flank and long exon
         LET alt == IF form = "inc" THEN ev.long ELSE ev.short
         IN IF ev.flank[1] >= ev.long[2] THEN <<alt, ev.flank>> ELSE <<ev.flank, alt>>

Other(form) == IF form = "inc" THEN "skip" ELSE "inc"

(* the intron an RI event talks about                                          *)
Gap(ev) == <<ev.up[2], ev.down[1]>>

(* transcript t carries chain ch starting at its k-th exon (ascending genomic   *)
(* order): junction coordinates agree, inner exons coincide; a one-exon chain    *)
(* (retained intron) is carried by an exon that covers the whole intron and at   *)
(* least one base on either side                                                  *)
(* k = <<k1, k2>>: the chain's first exon is t's k1-th exon, its last exon t's k2-th; inner    *)
(* chain exons are exons of t in between.  Further exons of t between k1 and k2 ("interjacent"   *)
(* exons) are allowed when they have nothing to do with the event - they overlap no exon of      *)
(* either form, i.e. they lie inside the event's introns: the form is then carried up to those   *)
(* extra exons, and they are not part of the event's other form.                                 *)
Tight(k, ch) == k[2] - k[1] + 1 = Len(ch)
IvOverlap(a, b) == a[1] < b[2] /\ b[1] < a[2]
EventExons(ev) == {Chain(ev, "inc")[j] : j \in 1..Len(Chain(ev, "inc"))} \cup {Chain(ev, "skip")[j] : j \in 1..Len(Chain(ev, "skip"))}
HasChainAtEv(t, k, ch, gap, evx) ==
  LET n == Len(ch) IN
  IF n = 1 THEN k[1] = k[2] /\ k[1] \in 1..Len(t.exons) /\ t.exons[k[1]][1] < gap[1] /\ gap[2] < t.exons[k[1]][2]
  ELSE /\ k[1] >= 1 /\ k[1] < k[2] /\ k[2] <= Len(t.exons)
       /\ t.exons[k[1]][2] = ch[1][2]
       /\ t.exons[k[2]][1] = ch[n][1]
       /\ \A j \in 2..(n - 1) : \E x \in (k[1] + 1)..(k[2] - 1) : t.exons[x] = ch[j]
       /\ \A x \in (k[1] + 1)..(k[2] - 1) :
             (\E j \in 2..(n - 1) : t.exons[x] = ch[j]) \/ (\A e \in evx : ~IvOverlap(t.exons[x], e))
(* Interjacent exons are only admitted for events whose two forms are single junctions (A5SS,   *)
(* A3SS): there "the transcript with the other splice site used" is one well-defined sequence.   *)
(* For SE / MXE (forms with two junctions) a transcript with extra exons between the event's      *)
(* exons has several candidate "alternative forms" (one junction realised, or both); the         *)
(* statement does not single one out, so such transcripts are out of scope (counted only).       *)
SingleJunctionEvent(ev) == ev.type \in {"A5SS", "A3SS"}
ChainPlacesEv(t, ev, form) ==
  {k \in (1..Len(t.exons)) \X (1..Len(t.exons)) :
     /\ HasChainAtEv(t, k, Chain(ev, form), Gap(ev), EventExons(ev))
     /\ (Tight(k, Chain(ev, form)) \/ SingleJunctionEvent(ev))}
(* the form is carried without interjacent exons                                               *)
HasForm(t, ev, form) == ChainPlacesEv(t, ev, form) # {}
HasFormTight(t, ev, form) == \E k \in ChainPlacesEv(t, ev, form) : Tight(k, Chain(ev, form))

(* t with the exons k[1]..k[2] (which carry one form) re-spliced as chain b                    *)
Respliced(t, k, b) ==
  LET m == Len(b)
      firstStart == t.exons[k[1]][1]
      lastEnd == t.exons[k[2]][2]
      mid == IF m = 1 THEN <<<<firstStart, lastEnd>>>>
             ELSE <<<<firstStart, b[1][2]>>>> \o SubSeq(b, 2, m - 1) \o <<<<b[m][1], lastEnd>>>>
  IN SubSeq(t.exons, 1, k[1] - 1) \o mid \o SubSeq(t.exons, k[2] + 1, Len(t.exons))

WellFormed(ex) == /\ \A k \in 1..Len(ex) : ex[k][1] < ex[k][2]
                  /\ \A k \in 1..(Len(ex) - 1) : ex[k][2] < ex[k + 1][1]

(* every alternative form of t under the event: <<target form, exon list>>        *)
(* a transcript that carries a form only up to interjacent exons has two alternative forms: the    *)
(* other form, and its own form with the junction realised (interjacent exons gone)                *)
AltForms(t, ev) ==
  UNION {{<<Other(f), Respliced(t, k, Chain(ev, Other(f)))>> : k \in ChainPlacesEv(t, ev, f)}
           \cup {<<f, Respliced(t, k, Chain(ev, f))>> : k \in {x \in ChainPlacesEv(t, ev, f) : ~Tight(x, Chain(ev, f))}}
         : f \in {"inc", "skip"}}
AltSeqs(chrom, t, ev) ==
  {<<a[1], TxSeq(chrom, [t EXCEPT !.exons = a[2]])>> : a \in {x \in AltForms(t, ev) : WellFormed(x[2])}}

(***************************************************************************)
(* What a GVF alternative-splicing record denotes on transcript t           *)
(* (docs/file-format.md 1.4, and how callVariant applies it): positions are  *)
(* gene coordinates; the bases at `start` and `end - 1` must be exonic in t. *)
(*   Deletion      the transcript bases from `start` to `end - 1` are removed  *)
(*   Insertion     gene[dstart, dend) is inserted after the base at `start`,    *)
(*                 which is spelled by the record's REF                         *)
(*   Substitution  the transcript bases from `start` to `end - 1` are replaced  *)
(*                 by gene[dstart, dend)                                        *)
(***************************************************************************)
NoSeq == <<"undefined">>
TxIdx(g, t, p) == LET x == Gene2G(g, p) IN IF p < 0 \/ p >= GeneLen(g) THEN Undef ELSE G2Tx(t, x)
Denote(chrom, g, t, rec) ==
  LET ts == TxSeq(chrom, t)
      gs == GeneSeq(chrom, g)
      i == TxIdx(g, t, rec.start)
      j == TxIdx(g, t, rec.end - 1)
      donor == Slice(gs, rec.dstart, rec.dend)
  IN CASE rec.kind = "Deletion" ->
            IF i = Undef \/ j = Undef \/ j < i THEN NoSeq ELSE Slice(ts, 0, i) \o Slice(ts, j + 1, Len(ts))
       [] rec.kind = "Insertion" ->
            IF i = Undef \/ rec.dstart < 0 \/ rec.dend > Len(gs) \/ rec.dstart >= rec.dend THEN NoSeq
            ELSE Slice(ts, 0, i) \o rec.ref \o donor \o Slice(ts, i + 1, Len(ts))
       [] rec.kind = "Substitution" ->
            IF i = Undef \/ j = Undef \/ j < i \/ rec.dstart < 0 \/ rec.dend > Len(gs) \/ rec.dstart >= rec.dend THEN NoSeq
            ELSE Slice(ts, 0, i) \o donor \o Slice(ts, j + 1, Len(ts))
       [] OTHER -> NoSeq

(* read support of a form                                                         *)
Supported(form, ijc, sjc, minIjc, minSjc) == IF form = "inc" THEN ijc >= minIjc ELSE sjc >= minSjc
=============================================================================
