---------------------------- MODULE PointerCache ----------------------------
(***************************************************************************)
(* The bounded cache in front of the on-disk annotation                    *)
(* (gtf/GTFPointer.py: GenePointerDict / TranscriptPointerDict).           *)
(* A lookup of key k is one action:                                        *)
(*   Hit     k is cached: the cached model is returned, nothing changes    *)
(*   Miss    k is a known key: the model is loaded from the byte range,    *)
(*           registered as the newest entry, the oldest entry is evicted   *)
(*           when more than Size entries are registered (FIFO, a hit does  *)
(*           not refresh an entry)                                         *)
(*   Absent  k is not a key of the annotation: KeyError, nothing changes   *)
(***************************************************************************)
EXTENDS Naturals, Sequences, FiniteSets, TLC

CONSTANTS Keys, AbsentKeys, Size, MaxOps

VARIABLES cache,   \* set of keys whose model is held
          order,   \* registered keys, newest first
          last,    \* [key, result]: result = key whose model was returned, or "KeyError"
          hist

vars == <<cache, order, last, hist>>
Range(s) == {s[i] : i \in 1..Len(s)}

Init == cache = {} /\ order = <<>> /\ last = [key |-> "", result |-> ""] /\ hist = <<>>

Rec(k, res) ==
  /\ last' = [key |-> k, result |-> res]
  /\ hist' = Append(hist, [key |-> k, result |-> res, cache |-> cache', order |-> order'])

Hit(k) == /\ k \in cache /\ UNCHANGED <<cache, order>> /\ Rec(k, k)

Miss(k) ==
  /\ k \in Keys /\ k \notin cache
  /\ LET o == <<k>> \o order IN
     IF Len(o) > Size
     THEN /\ order' = SubSeq(o, 1, Size)
          /\ cache' = (cache \cup {k}) \ {o[Len(o)]}
     ELSE /\ order' = o /\ cache' = cache \cup {k}
  /\ Rec(k, k)

Absent(k) == /\ k \in AbsentKeys /\ UNCHANGED <<cache, order>> /\ Rec(k, "KeyError")

Get(k) == Len(hist) < MaxOps /\ (Hit(k) \/ Miss(k) \/ Absent(k))
Next == \E k \in Keys \cup AbsentKeys : Get(k)
Spec == Init /\ [][Next]_vars

(* C11: every lookup of a real key returns that key's model, whatever the     *)
(* history of earlier lookups (including failed ones)                         *)
AlwaysRight == last.key \in Keys => last.result = last.key
AbsentFails == last.key \in AbsentKeys => last.result = "KeyError"
Consistent ==
  /\ Range(order) = cache
  /\ \A i, j \in 1..Len(order) : i # j => order[i] # order[j]
  /\ Len(order) <= Size
  /\ cache \subseteq Keys
View == <<cache, order, last>>
=============================================================================
