------------------------------ MODULE PoolTrace ------------------------------
(* C10, pool level: the canonical peptide pool the implementation built     *)
(* (generateIndex, updateIndex, or on the fly) must equal CanonicalPool of  *)
(* the proteome under the same cleavage settings.                           *)
(* CASES_FILE: array of [proteins: [[seq, startNF]], cfg, pools: [[pep]]]   *)
EXTENDS Cleavage, TLC, Json, IOUtils

Cases == JsonDeserialize(IOEnv.CASES_FILE)
ToSet(s) == {s[i] : i \in 1..Len(s)}

VARIABLE i
Init == i \in 1..Len(Cases)
Next == FALSE /\ i' = i

Expected == CanonicalPool(Cases[i].proteins, Cases[i].cfg)

Verdict ==
  LET exp == Expected
      bad == {k \in 1..Len(Cases[i].pools) : ToSet(Cases[i].pools[k]) # exp}
  IN IF bad = {} THEN PrintT(<<"V", i, "ok">>)
     ELSE LET k == CHOOSE x \in bad : TRUE
              obs == ToSet(Cases[i].pools[k])
          IN PrintT(<<"V", i, "pool", k, "missing", exp \ obs, "extra", obs \ exp>>)
=============================================================================
