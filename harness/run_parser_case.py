"""Worker for C14-C17: call the real parser record classes on synthetic annotations.
stdin: {"jobs": [{"paths":..., "vep": [...], "redi": [...], "fusion": [...], "rmats": [...], "circ": [...]}]}
"""
import sys, json, os, io, contextlib
sys.path.insert(0, os.path.dirname(os.path.abspath(__file__)))
from vlib import mpg


def rec_small(r):
    return dict(gene=r.location.seqname, start=int(r.location.start), end=int(r.location.end), ref=list(r.ref), alt=list(r.alt),
                id=r.id, type=r.type, tx=r.attrs.get('TRANSCRIPT_ID'), attrs={k: str(v) for k, v in r.attrs.items()})


def one(job):
    from moPepGen import gtf, dna
    from moPepGen.parser import VEPParser, REDItoolsParser
    from moPepGen.err import TranscriptionStopSiteMutationError, TranscriptionStartSiteMutationError
    p = job['paths']
    genome = dna.DNASeqDict(); genome.dump_fasta(p['genome_fasta'])
    anno = gtf.GenomicAnnotationOnDisk(); anno.generate_index(p['annotation_gtf'])
    out = dict(vep=[], redi=[])
    for v in job.get('vep', []):
        rec = VEPParser.VEPRecord(
            uploaded_variation='.', location=v['location'], allele=v['allele'], gene=v['gene'], feature=v['tx'],
            feature_type='Transcript', consequences=['missense_variant'], cdna_position='', cds_position='',
            protein_position='', amino_acids=('', ''), codons=('', ''), existing_variation='', extra={})
        try:
            r = rec.convert_to_variant_record(anno, genome)
            out['vep'].append(dict(outcome='record', rec=rec_small(r)))
        except TranscriptionStartSiteMutationError:
            out['vep'].append(dict(outcome='reject_start'))
        except TranscriptionStopSiteMutationError:
            out['vep'].append(dict(outcome='reject_stop'))
        except Exception as ex:
            out['vep'].append(dict(outcome='error', error=type(ex).__name__ + ': ' + str(ex)[:200]))
    for v in job.get('redi', []):
        rec = REDItoolsParser.REDItoolsRecord(
            region=v['chrom'], position=v['position'], reference=v['reference'], strand=v['strand'], coverage_q=v['coverage'],
            mean_quality=30.0, base_count=v['counts'], all_subs=[tuple(x) for x in v['subs']], frequency=v.get('frequency', 0.5),
            g_coverage_q=v['gcov'], transcript_id=[(t, 'transcript') for t in v['txs']])
        try:
            rs = rec.convert_to_variant_records(anno, v['min_coverage_alt'], v['min_frequency_alt'], v['min_coverage_rna'],
                                                v['min_coverage_dna'])
            out['redi'].append(dict(ok=True, records=[rec_small(r) for r in rs]))
        except Exception as ex:
            out['redi'].append(dict(ok=False, error=type(ex).__name__ + ': ' + str(ex)[:200]))
    return out


def run_cli(argv):
    """Run the real command line (argparse included) in this process; returns (status, log text)."""
    import logging
    from moPepGen.cli import __main__ as climain
    logging.disable(logging.NOTSET)
    buf = io.StringIO()
    old = sys.argv
    sys.argv = ['moPepGen'] + [str(a) for a in argv]
    status = 'ok'
    try:
        with contextlib.redirect_stderr(buf), contextlib.redirect_stdout(buf):
            try:
                climain.main()
            except SystemExit as ex:
                status = 'ok' if ex.code in (0, None) else f'exit:{ex.code}'
            except BaseException as ex:
                import traceback
                status = 'error:' + type(ex).__name__ + ': ' + str(ex)[:200]
    finally:
        sys.argv = old
        logging.disable(logging.CRITICAL)
        lg = logging.getLogger('moPepGen')
        for h in list(lg.handlers):
            lg.removeHandler(h)
    return status, buf.getvalue()[-6000:]


def cli_job(job):
    """{"argv": [...], "circ_gvf": path | None, "gene_fasta": ...}"""
    status, log = run_cli(job['argv'])
    out = dict(status=status, log=log)
    if job.get('read_gvf') and os.path.exists(job['read_gvf']):
        out['gvf'] = open(job['read_gvf']).read()
    if job.get('circ_seq') and os.path.exists(job['read_gvf']):
        from moPepGen import gtf, dna
        from moPepGen.circ import io as cio
        genome = dna.DNASeqDict(); genome.dump_fasta(job['circ_seq']['genome_fasta'])
        anno = gtf.GenomicAnnotationOnDisk(); anno.generate_index(job['circ_seq']['annotation_gtf'])
        seqs = []
        with open(job['read_gvf']) as h:
            for m in cio.parse(h):
                g = anno.genes[m.gene_id]
                gs = g.get_gene_sequence(genome[g.chrom])
                seqs.append(dict(id=m.id, tx=m.transcript_id, seq=list(str(m.get_circ_rna_sequence(gs).seq)),
                                 frags=[[int(f.location.start), int(f.location.end)] for f in m.fragments]))
        out['circ'] = seqs
    return out


def main():
    top = json.load(sys.stdin)
    mpg.ready()
    res = []
    for job in top['jobs']:
        try:
            if 'argv' in job:
                res.append(dict(ok=True, out=cli_job(job)))
                continue
            res.append(dict(ok=True, out=one(job)))
        except BaseException as ex:
            import traceback
            res.append(dict(ok=False, error=type(ex).__name__ + ': ' + str(ex), tb=traceback.format_exc()[-1500:]))
    sys.stdout.write('\n@@RESULT@@' + json.dumps(dict(ok=True, results=res)))


if __name__ == '__main__':
    main()
