"""Worker for C13 (series view): open a VariantRecordPoolOnDisk on real GVF files with a real annotation, read every
transcript's series (pool[tx]) and report the records handed out as record texts.
stdin: {"jobs": [{"paths": {...}, "files": [path...], "index": [bool...]}]}"""
import sys, json, os
sys.path.insert(0, os.path.dirname(os.path.abspath(__file__)))
from vlib import mpg


def one(job):
    from pathlib import Path
    import argparse
    from moPepGen import gtf, dna, seqvar, cli, circ
    p = job['paths']
    genome = dna.DNASeqDict(); genome.dump_fasta(p['genome_fasta'])
    anno = gtf.GenomicAnnotationOnDisk(); anno.generate_index(p['annotation_gtf'])
    for f, ix in zip(job['files'], job['index']):
        if ix:
            cli.index_gvf(argparse.Namespace(command='indexGVF', input_path=Path(f), quiet=True, debug_level=1))
    pool = seqvar.VariantRecordPoolOnDisk(gvf_files=[Path(f) for f in job['files']], anno=anno, genome=genome)
    opener = seqvar.VariantRecordPoolOnDiskOpener(pool)
    out = {}
    opener.open()
    try:
        for tx in list(pool.pointers):
            s = pool[tx]
            got = []
            for slot in ('transcriptional', 'intronic', 'fusion'):
                for r in getattr(s, slot):
                    a = r.attrs
                    got.append(dict(slot=slot, id=r.id, type=r.type, tx=r.transcript_id,
                                    attrs={k: str(a[k]) for k in ('START', 'END', 'DONOR_START', 'DONOR_END', 'ACCEPTER_TRANSCRIPT_ID',
                                                                  'ACCEPTER_POSITION') if k in a}))
            for c in s.circ_rna:
                got.append(dict(slot='circ', id=c.id, type='circRNA', tx=c.transcript_id,
                                attrs=dict(FRAGS=','.join(f'{int(f.location.start)}-{int(f.location.end)}' for f in sorted(c.fragments)))))
            out[tx] = got
    finally:
        opener.close()
    return out


def main():
    top = json.load(sys.stdin)
    mpg.ready()
    res = []
    for job in top['jobs']:
        try:
            res.append(dict(ok=True, out=one(job)))
        except BaseException as ex:
            import traceback
            res.append(dict(ok=False, error=type(ex).__name__ + ': ' + str(ex), tb=traceback.format_exc()[-1500:]))
    sys.stdout.write('\n@@RESULT@@' + json.dumps(dict(ok=True, results=res)))


if __name__ == '__main__':
    main()
