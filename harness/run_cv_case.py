"""Worker: run one callVariant job in this process and print a JSON result.

stdin: {"args": {...call_variant_args overrides...}, "trace": bool, "fail": [...],
        "timeouts": {...}, "prep": [["generateIndex", {...}] | ["indexGVF", path] ...]}
"""
import sys, json, os, argparse
sys.path.insert(0, os.path.dirname(os.path.abspath(__file__)))
from vlib import mpg, env
from pathlib import Path


def main():
    job = json.load(sys.stdin)
    mpg.ready()
    from moPepGen import cli
    out = {}
    try:
        for step in job.get('prep', []):
            if step[0] == 'indexGVF':
                a = argparse.Namespace(command='indexGVF', input_path=Path(step[1]), quiet=True, debug_level=1)
                cli.index_gvf(a)
            elif step[0] == 'generateIndex':
                kw = step[1]
                a = argparse.Namespace(
                    command='generateIndex', genome_fasta=Path(kw['genome_fasta']),
                    annotation_gtf=Path(kw['annotation_gtf']), proteome_fasta=Path(kw['proteome_fasta']),
                    reference_source=None, output_dir=Path(kw['output_dir']), gtf_symlink=False, force=False,
                    invalid_protein_as_noncoding=False, cleavage_rule=kw.get('cleavage_rule', 'trypsin'),
                    cleavage_exception=kw.get('cleavage_exception'), miscleavage=str(kw.get('miscleavage', 2)),
                    min_mw=str(kw.get('min_mw', 500.)), min_length=kw.get('min_length', 7),
                    max_length=kw.get('max_length', 25), quiet=True, debug_level=1)
                cli.generate_index(a)
        args = mpg.call_variant_args(**job['args'])
        r = mpg.run_call_variant(args, trace=job.get('trace', False), fail=job.get('fail'),
                                 timeouts=job.get('timeouts'))
        me = os.getpid()
        out = dict(ok=r.ok, error=r.error, fasta=r.fasta, fasta_exists=r.fasta_exists,
                   parent=r.events.get(me, []),
                   workers={str(p): e for p, e in r.events.items() if p != me},
                   stderr=r.stderr[-500:])
        if job.get('table'):
            tp = str(args.output_path).rsplit('.', 1)[0] + '_peptide_table.txt'
            out['table'] = open(tp).read() if os.path.exists(tp) else None
    except BaseException as ex:
        import traceback
        out = dict(ok=False, error='HARNESS ' + type(ex).__name__ + ': ' + str(ex), tb=traceback.format_exc())
    sys.stdout.write('\n@@RESULT@@' + json.dumps(out))


main()
