"""C17: parseCIRCexplorer (spec/Parsers.tla, CircTrace.tla), driven through the real command line."""
import json, os, re
from vlib import env, tlc, report, jobs, refgen, cvgen
from checks.cv import tlc_cases
from checks.c14 import tx_spec


def rows_for(r, chrom, genes, txs, ce3, th, force=None):
    rows = []
    for t in txs:
        g = next(x for x in genes if x['id'] == t['gene'])
        ex = t['exons']
        cands = []
        for a in range(len(ex)):
            for b in range(a, len(ex)):
                cands.append(('circRNA', [list(e) for e in ex[a:b + 1]]))
                if b - a >= 2:
                    # same back-splice junction, one inner exon skipped: same id, different circRNA
                    k = r.randrange(a + 1, b)
                    cands.append(('circRNA', [list(e) for j, e in enumerate(ex[a:b + 1]) if a + j != k]))
        # a block that is not an exon
        if ex:
            e = ex[r.randrange(len(ex))]
            if e[1] - e[0] > 3:
                cands.append(('circRNA', [[e[0] + 1, e[1]]]))
        for k in range(len(ex) - 1):
            iv = [ex[k][1], ex[k + 1][0]]
            cands.append(('ciRNA', [iv]))
            for ds, de in ((-1, 0), (-2, 0), (-3, 0), (1, 0), (0, -1), (0, 3), (0, 6)):
                # offsets are given in transcript orientation
                if t['strand'] == 1:
                    blk = [iv[0] + ds, iv[1] + de]
                else:
                    blk = [iv[0] - de, iv[1] - ds]
                if blk[1] - blk[0] >= 1 and blk[0] >= g['start'] and blk[1] <= g['end']:
                    cands.append(('ciRNA', [blk]))
        for kind, blocks in cands:
            reads = r.choice([0, 1, 2, 5])
            fpb = r.choice([0.5, 1.0, 2.0]); score = r.choice([0.5, 1.0, 3.0])
            if force and kind == 'circRNA' and force(blocks):
                reads, fpb, score = 5, 2.0, 3.0
            enough = reads >= th['min_read_number']
            if ce3:
                if th['min_fpb_circ'] is not None and th['min_fpb_circ'] and fpb < th['min_fpb_circ']:
                    enough = False
                if th['min_circ_score'] is not None and th['min_circ_score'] and score < th['min_circ_score']:
                    enough = False
            start, end = blocks[0][0], blocks[-1][1]
            sizes = ','.join(str(b[1] - b[0]) for b in blocks)
            offs = ','.join(str(b[0] - start) for b in blocks)
            f = ['chr1', str(start), str(end), f'circular_RNA/{reads}', '0', '+' if t['strand'] == 1 else '-', str(start), str(start),
                 '0,0,0', str(len(blocks)), sizes, offs, str(reads), kind, 'GN', t['id'], '1', 'None']
            if ce3:
                f += [str(fpb), '1.0', str(score)]
            rows.append(dict(line='\t'.join(f), tx=t, gene=g, blocks=blocks, kind=kind, enough=enough, key=(t['id'], start, end, kind)))
    # one row per (tx, blocks); rows of one transcript may share start and end (and therefore the id)
    seen, out = set(), []
    for x in rows:
        k = (x['key'][0], x['kind'], tuple(map(tuple, x['blocks'])))
        if k in seen:
            continue
        seen.add(k); out.append(x)
    return out


def pinned_worlds():
    """Inputs kept from earlier findings (regressions of repaired defects): [(reference, small variants in gene coordinates)]
    1: fixed 7579f49 - 28-nt circle of two exons on the minus strand; SNV-21-A-G turns M into V in one pass and lies, two passes
       later, in the residue right after the cleavage site ending DVPCMVLWK (reported VSHAWCFGK + DVPCMVLWK, one loop with and
       one without the variant)"""
    ref = refgen.Reference()
    ref.chroms['chr1'] = 'CATGTTCCAAAGCAGACCACCATGCATGGGACATCTTTTGCTGCATACCCAAGGACTATAGGTAT'
    g = refgen.Gene('ENSG00001.1', 'chr1', 3, 54, -1, biotype='lncRNA')
    t = refgen.Tx('ENST00001.1', g.id, -1, [(5, 14), (19, 38), (41, 50)], False)
    g.txs.append(t.id); ref.genes[g.id] = g; ref.txs[t.id] = t
    return [(ref, [(t.id, 20, 'A', 'G'), (t.id, 21, 'T', 'G'), (t.id, 44, 'T', 'A'), (t.id, 46, 'G', 'T')])]


def check_c17(tier, rep=None, only=None):
    """only: None (C17: the parser clauses), 'circ_peptides_complete' (reported by C01) or 'circ_peptides_sound' (by C02)"""
    rep = rep or report.Report('C17', tier)
    rule_before = rep.cov['rule']
    rep.cov['rule'] = ("random annotations (both strands, 2-4 exons, genes wider than transcripts) x every contiguous exon subset "
                       "(circRNA), every intron with start/end perturbations (ciRNA), non-exon blocks, read numbers / fpb / score around "
                       "the thresholds, CIRCexplorer2 and 3 column layouts, tolerance ranges; the real command line parseCIRCexplorer "
                       "is run and the emitted GVF re-read; TLC checks fragments, circular sequence, ID, skipping rules; non-trivial = "
                       "record emitted")
    if only:
        rep.cov['rule'] = rule_before + f' | circRNA backbones: callVariant on the GVFs of the C17 campaign, clause {only} of CircTrace (circle read as four copies, every ATG of the first copy)'
    work = env.scratch('c17_')
    r = env.rng('c17')
    n = 36 if tier == 'quick' else 600
    jl, meta = [], []
    pinned = pinned_worlds()
    for i in range(n + len(pinned)):
        tiny = None
        ref = None
        if i >= n:
            ref = pinned[i - n][0]
        elif r.random() < 0.45:
            # a tiny exon that is circularised, with a start codon that small variants will hit (see below)
            ref, tt_, atg = refgen.tiny_circle_reference(r)
            tiny = (tt_.id, atg) if ref is not None else None
        if tiny is None and ref is None:
            ref = refgen.random_reference(r, n_genes=r.randrange(1, 3), coding_p=0.6, max_exons=4, aa_len=(10, 18), nc_len=(30, 70), flank_p=0.6)
        d = os.path.join(work, f'c{i}')
        paths = ref.write(d)
        genes, txs = ref.features()
        ce3 = r.random() < 0.5
        th = dict(min_read_number=r.choice([1, 1, 2]), min_fpb_circ=r.choice([None, 1.0]) if ce3 else None,
                  min_circ_score=r.choice([None, 1.0]) if ce3 else None)
        sr = r.choice([(-2, 0), (0, 0), (-1, 1)]); er = r.choice([(-100, 5), (0, 0), (-1, 3)])
        # the tiny exon on its own is always reported with enough support
        mid = [list(e) for e in txs[0]['exons'][1:2]] if tiny else None
        rows = rows_for(r, ref.chroms['chr1'], genes, txs, ce3, th,
                        force=(lambda b: True) if i >= n else (lambda b: b == mid) if tiny else None)
        if not rows:
            continue
        inp = os.path.join(d, 'circ.txt'); open(inp, 'w').write('\n'.join(x['line'] for x in rows) + '\n')
        outp = os.path.join(d, 'circ.gvf')
        argv = ['parseCIRCexplorer', '-i', inp, '-o', outp, '-a', paths['annotation_gtf'], '--source', 'circRNA',
                '--min-read-number', th['min_read_number'], f'--intron-start-range={sr[0]},{sr[1]}',
                f'--intron-end-range={er[0]},{er[1]}']
        if ce3:
            argv.append('--circexplorer3')
            if th['min_fpb_circ'] is not None:
                argv += ['--min-fpb-circ', th['min_fpb_circ']]
            if th['min_circ_score'] is not None:
                argv += ['--min-circ-score', th['min_circ_score']]
        jl.append(dict(argv=argv, read_gvf=outp, circ_seq=paths))
        meta.append(dict(ref=ref, rows=rows, sr=sr, er=er, ce3=ce3, th=th, argv=[str(a) for a in argv], tiny=tiny,
                         pinned=pinned[i - n][1] if i >= n else None))
    nj = env.NCPU
    res = jobs.run_jobs('run_parser_case.py', [dict(jobs=jl[k::nj]) for k in range(nj)], timeout=3000)
    flat = [None] * len(jl)
    for k, rr in enumerate(res):
        if not rr.get('ok'):
            rep.machinery(f"worker failed: {rr.get('error')} {rr.get('stderr', '')[-300:]}"); return rep.finish()
        for j, x in enumerate(rr['results']):
            flat[k + j * nj] = x
    # callVariant on the emitted circRNA GVFs: peptides of each circRNA (C01 / C02 on circular backbones)
    CFG = dict(rule='trypsin', exc='', misc=1, min_len=4, max_len=22, min_mw='0.00005')
    cvjobs = []
    for mi, m in enumerate(meta):
        d = os.path.dirname(jl[mi]['read_gvf'])
        a = dict(jl[mi]['circ_seq']); a.update(cvgen.cli_cfg(CFG))
        # small variants on the host transcripts (some lie on the circles, some on a fragment's first three bases, some outside)
        rv = env.rng(f'c17-vars-{mi}')
        small = []
        for tt in m['ref'].txs.values():
            if rv.random() < 0.7:
                small += cvgen.random_small_variants(rv, m['ref'], tt, rv.randrange(1, 4), kinds=('SNV', 'SNV', 'INS', 'DEL'))
        if m.get('pinned'):
            small = []
            for tid_, gp, rf_, alt_ in m['pinned']:
                tt = m['ref'].txs[tid_]; sq = tt.seq(m['ref'].chroms['chr1'])
                gobj_ = m['ref'].genes[tt.gene]
                tp = next(k for k in range(len(sq)) if cvgen.gene_pos(m['ref'], tt, k) == gp)
                assert sq[tp] == rf_
                small.append(cvgen.snv_at(m['ref'], tt, sq, tp, alt_))
        if m.get('tiny'):
            # variants that destroy the designed start codon of the tiny circle: the deletion of its A, a substitution of one of
            # its bases
            tt = m['ref'].txs[m['tiny'][0]]; atg = m['tiny'][1]
            sq = tt.seq(m['ref'].chroms['chr1'])
            extra = []
            if rv.random() < 0.8:
                extra.append(cvgen.del_at(m['ref'], tt, sq, atg - 1, 1))
            for _ in range(rv.randrange(0, 3)):
                p_ = atg + rv.randrange(0, 3)
                extra.append(cvgen.snv_at(m['ref'], tt, sq, p_, rv.choice([b for b in 'ACGT' if b != sq[p_]])))
            for v in extra:
                if v is not None and not cvgen.overlaps_any(v, small):
                    small.append(v)
        m['small'] = small
        inputs = [jl[mi]['read_gvf']]
        if small:
            sg = os.path.join(d, 'small.gvf'); cvgen.write_gvf(sg, small); inputs.append(sg)
        a.update(input_path=inputs, output_path=os.path.join(d, 'cv.fasta'), max_variants_per_node=[-1],
                 additional_variants_per_misc=[-1])
        cvjobs.append(dict(cmd='callVariant', args=a))
    cvres = jobs.run_jobs('run_cv_batch.py', [dict(jobs=cvjobs[k::nj]) for k in range(nj)], timeout=3000)
    cvflat = [None] * len(cvjobs)
    for k, rr in enumerate(cvres):
        if rr.get('ok'):
            for j, xx in enumerate(rr['results']):
                cvflat[k + j * nj] = xx
    cases, info = [], []
    for mi, (m, x) in enumerate(zip(meta, flat)):
        cv = cvflat[mi] if os.path.exists(jl[mi]['read_gvf']) else None
        cv_ok = bool(cv and cv['ok'] and cv['fasta'] is not None)
        by_id, allobs = {}, []
        if cv_ok:
            for h, sq in cv['fasta']:
                allobs.append(sq)
                for e in h.split(' '):
                    if e.startswith(('CIRC-', 'CI-')):
                        by_id.setdefault(e.split('|')[0], set()).add((sq, e))
        ctx = dict(gtf=m['ref'].gtf_lines(), chroms=m['ref'].chroms, argv=m['argv'], rows=[y['line'] for y in m['rows']])
        key = env.canon_hash(ctx)
        if not x['ok'] or x['out']['status'] != 'ok':
            rep.case(1, key)
            rep.violation(f"cli:{'ce3' if m['ce3'] else 'ce2'}:{key}", f"parseCIRCexplorer command line failed: "
                          f"{x['out']['status'] if x['ok'] else x.get('error')}", dict(ctx, log=(x.get('out') or {}).get('log', '')[-800:]))
            continue
        out = x['out']
        emitted = {}
        for c in out.get('circ', []):
            mm = re.match(r'(CIRC|CI)-(.+)-(\d+):(\d+)$', c['id'])
            emitted[(c['tx'], c['id'], tuple(map(tuple, sorted(c['frags']))))] = (c, (int(mm.group(3)), int(mm.group(4))) if mm else None)
        n_lines = len(out.get('circ', []))
        nrec = 0
        chrom = m['ref'].chroms['chr1']
        for y in m['rows']:
            g = y['gene']; t = y['tx']
            # expected id is computed by the spec; find the record of this row by transcript and back-splice span
            gs = (y['blocks'][0][0] - g['start']) if g['strand'] == 1 else (g['end'] - y['blocks'][-1][1])
            ge = gs + (y['blocks'][-1][1] - y['blocks'][0][0])
            # the record of this row: same transcript, same back-splice span and - when several rows share that span - the same
            # number of fragments (the fragments themselves are checked by TLC)
            cands_ = [v for (tx, cid, fr), v in emitted.items() if tx == t['id'] and v[1] == (gs, ge)]
            hit = [v for v in cands_ if len(v[0]['frags']) == len(y['blocks'])] or cands_[:0]
            if y['kind'] == 'ciRNA':
                hit = cands_
            c = dict(chrom=list(chrom), gene=dict(start=g['start'], end=g['end'], strand=g['strand']), tx=tx_spec(t),
                     blocks=y['blocks'], kind=y['kind'], enough=y['enough'], startRange=list(m['sr']), endRange=list(m['er']))
            tt = m['ref'].txs[t['id']]
            # the circle's fragments and the host transcript's small variants in circle coordinates
            gobj = m['ref'].genes[tt.gene]
            fr = sorted(((gobj.g2gene(b[0]), gobj.g2gene(b[1] - 1) + 1) if gobj.strand == 1 else (gobj.g2gene(b[1] - 1), gobj.g2gene(b[0]) + 1))
                        for b in y['blocks'])
            frag_idx, off = [], 0
            for fa, fb in fr:
                frag_idx.append([off, off + fb - fa]); off += fb - fa
            cvars = []
            for v in m.get('small', []):
                if v['tx'] != t['id']:
                    continue
                for (fa, fb), (ia, ib) in zip(fr, frag_idx):
                    if fa <= v['gstart'] and v['gend'] <= fb:
                        cvars.append(dict(start=ia + v['gstart'] - fa, end=ia + v['gend'] - fa, ref=list(v['ref']), alt=list(v['alt']), id=v['id']))
            c.update(cfg=cvgen.spec_cfg(CFG), proteome=cvgen.proteome_record(m['ref']), host=cvgen.tx_record(m['ref'], tt),
                     cvran=False, cpeps=[], allobs=[], cvars=cvars, fragIdx=frag_idx,
                     hostHasVars=any(v['tx'] == t['id'] for v in m.get('small', [])))
            if hit:
                rec, bsj = hit[0]
                nrec += 1
                c.update(outcome='record', frags=rec['frags'], seq=rec['seq'], bsj=list(bsj),
                         idOk=rec['id'] == f"CIRC-{t['id']}-{bsj[0]}:{bsj[1]}")
                shared = sum(1 for (tx_, cid_, fr_) in emitted if cid_ == rec['id']) > 1
                if cv_ok and not shared:
                    # peptides whose only circRNA labels name this record alone (no further variants in these inputs)
                    c.update(cvran=True, cpeps=[list(sq) for sq, e in sorted(by_id.get(rec['id'], ()))], allobs=[list(q) for q in allobs])
            else:
                c.update(outcome='absent', frags=[], seq=[], bsj=[0, 0], idOk=True)
            cases.append(c); info.append((key, ctx, y, bool(hit)))
        # tally: skipped + succeeded = rows; every emitted record belongs to a row
        log = out['log']
        mt = re.search(r'Totally records read: (\d+)', log); ms = re.search(r'Records skipped: (\d+)', log)
        mo = re.search(r'Records successfully processed: (\d+)', log)
        if not (mt and ms) or int(mt.group(1)) != len(m['rows']) or int(ms.group(1)) != len(m['rows']) - n_lines:
            rep.violation(f"tally:{key}", f"parseCIRCexplorer tally does not account for the rows: rows={len(m['rows'])} emitted={n_lines} "
                          f"log total={mt and mt.group(1)} skipped={ms and ms.group(1)}", dict(ctx, log=log[-600:]))
        if nrec != len(emitted):
            rep.violation(f"stray:{key}", f"{len(emitted) - nrec} emitted circRNA records correspond to no input row "
                          f"(ids {sorted(k[1] for k in emitted)[:6]})", ctx)
    rep.part('circ_peptides', records_with_callvariant=sum(1 for c in cases if c['cvran']),
             circ_labelled_peptides=sum(len(c['cpeps']) for c in cases if c['cvran']))
    verdicts = tlc_cases('CircTrace', cases, work, 'circ', rep)
    for (key, ctx, y, hit), vs in zip(info, verdicts):
        vs = [v.strip('"') for v in vs]
        rep.traces(1); rep.case(1, (key, y['key']) if hit else None)
        if 'done' not in vs:
            rep.machinery(f"no verdict for circ case {key}")
        bad = sorted(v for v in vs if v != 'done')
        # the two peptide clauses decide C01 / C02 on circular backbones and are reported by those checks
        pep_clauses = ('circ_peptides_complete', 'circ_peptides_sound')
        bad = [v for v in bad if (v == only if only else v not in pep_clauses)]
        if bad:
            rep.violation(f"circ:{key}:{y['key']}:{','.join(bad)}", f"parseCIRCexplorer row {y['line']} violates {bad}",
                          dict(ctx, row=y['line']))
    if only:
        return None
    if info:
        rep.sample(dict(argv=info[0][1]['argv'], row=info[0][2]['line'], emitted=info[0][3]))
    return rep.finish()
