"""C01 / C02 / C04 (and the uniqueness clause of C03): callVariant against the definitional oracle
(spec/Peptides.tla via CallVariantOracle.tla, OutputTrace.tla)."""
import json, os, re
from concurrent.futures import ThreadPoolExecutor
from vlib import env, tlc, report, jobs, refgen, cvgen

ALL_RULES = ['trypsin', 'lysc', 'asp-n', 'chymotrypsin high specificity', 'chymotrypsin low specificity',
             'glutamyl endopeptidase', 'arg-c', 'lysn', 'cnbr', 'thermolysin', 'proteinase k', 'pepsin ph1.3',
             'pepsin ph2.0', 'staphylococcal peptidase i', 'formic acid', 'hydroxylamine', 'ntcb', 'bnps-skatole',
             'iodosobenzoic acid', 'clostripain', 'proline endopeptidase', 'thrombin', 'factor xa', 'enterokinase',
             'caspase 1', 'caspase 2', 'caspase 3', 'caspase 4', 'caspase 5', 'caspase 6', 'caspase 7', 'caspase 8',
             'caspase 9', 'caspase 10', 'granzyme b']
QUICK_RULES = ['trypsin', 'trypsin', 'lysc', 'asp-n', 'chymotrypsin high specificity', 'glutamyl endopeptidase',
               'arg-c', 'lysn', 'cnbr', 'thermolysin', 'pepsin ph1.3', 'staphylococcal peptidase i',
               'proline endopeptidase']
# rules whose pattern looks further than P1 / P1' (see DESIGN, known finding "context")
LOOKBEHIND = {'pepsin ph1.3', 'pepsin ph2.0', 'staphylococcal peptidase i', 'proline endopeptidase', 'thrombin',
              'factor xa', 'enterokinase', 'granzyme b'} | {f'caspase {k}' for k in range(1, 11)}

MODES = ['base', 'base', 'nc', 'nf', 'startnf', 'sec', 'multi', 'rules', 'exc', 'collapse', 'rules',
         'adj', 'stop', 'sect', 'w2f', 'lowmass', 'stop', 'as', 'as']
if os.environ.get('VERIF_NESTED') == '1':
    MODES = MODES + ['asfs']      # on request only, see make_case


def tryptic_protein(r, n_pep, alphabet=refgen.PEPTIDE_AAS, plen=(3, 8)):
    """concatenation of n_pep peptides that each end in K or R"""
    return ''.join(''.join(r.choice(alphabet) for _ in range(r.randrange(*plen))) + r.choice('KR') for _ in range(n_pep))


def stop_reference(r, coding):
    """prefix + ATG + peptide region + STOP1 + in-frame read-through region with several tryptic peptides + STOP2 + suffix;
    coding: CDS annotated up to STOP1 (the read-through region is the 3'UTR)."""
    b = refgen.Builder(r)
    prefix = ''.join(r.choice('CGT') for _ in range(r.randrange(3, 10)))        # no ATG possible without A
    p1 = 'M' + tryptic_protein(r, r.randrange(1, 4))
    p2 = tryptic_protein(r, r.randrange(2, 5))
    stop1 = r.choice(['TAA', 'TAA', 'TAG', 'TGA'])
    cds = refgen.encode(r, p1)
    tail = refgen.encode(r, p2) + r.choice(refgen.STOPS) + refgen.rand_dna(r, r.randrange(3, 9))
    seq = prefix + cds + stop1 + tail
    sp = len(prefix) + len(cds)
    if coding:
        t = b.add_gene(seq, r.choice([1, -1]), r.randrange(1, 3), True, len(prefix), sp + 3, (), (), p1)
    else:
        t = b.add_gene(seq, r.choice([1, -1]), r.randrange(1, 3), False)
    return b.finish(), t, sp


def stop_variants(r, ref, t, sp):
    """variants aimed at the stop codon at transcript position sp"""
    seq = t.seq(ref.chroms['chr1'])
    kind = r.choice(['snv', 'pair', 'pair', 'mnv', 'mnv', 'del', 'ins'])
    bases = 'ACGT'
    out = []
    if kind == 'snv':
        k = sp + r.randrange(3)
        out.append(cvgen.snv_at(ref, t, seq, k, r.choice([x for x in bases if x != seq[k]])))
    elif kind == 'pair':
        k = sp + r.randrange(2)
        if seq[sp:sp + 3] == 'TAA' and r.random() < 0.6:
            k = sp + 1; alts = ('G', 'G')                 # each alone keeps a stop (TGA / TAG), together TGG
        else:
            alts = tuple(r.choice([x for x in bases if x != seq[k + j]]) for j in range(2))
        out += [cvgen.snv_at(ref, t, seq, k, alts[0]), cvgen.snv_at(ref, t, seq, k + 1, alts[1])]
    elif kind == 'mnv':
        for _ in range(10):
            v = cvgen.small_variant(r, ref, t, seq, sp + r.randrange(-1, 2), 'MNV')
            if v:
                out.append(v); break
    elif kind == 'del':
        v = cvgen.small_variant(r, ref, t, seq, sp - 1 + r.randrange(0, 2), 'DEL')
        if v:
            out.append(v)
    else:
        v = cvgen.small_variant(r, ref, t, seq, sp + r.randrange(-1, 3), 'INS')
        if v:
            out.append(v)
    # the pair must lie in one exon with contiguous gene coordinates
    for v in out:
        if v['gend'] - v['gstart'] != v['end'] - v['start']:
            return []
    return out


def add_adjacent_partners(r, ref, t, vs):
    """for some variants add a directly adjacent variant of the same class (merged into one MNV by --max-adjacent-as-mnv 2)"""
    seq = t.seq(ref.chroms['chr1'])
    out = list(vs)
    for v in vs:
        if r.random() > 0.7:
            continue
        pos = v['end']
        if pos >= len(seq) - 4:
            continue
        if v['type'] == 'SNV':
            w = cvgen.small_variant(r, ref, t, seq, pos, 'SNV')
        elif v['type'] == 'INDEL':
            w = cvgen.small_variant(r, ref, t, seq, pos, r.choice(['INS', 'DEL']))
        else:
            continue
        if w and not any(x['start'] < w['end'] and w['start'] < x['end'] for x in out):
            out.append(w)
            if r.random() < 0.45:
                # a second record starting on the same base as the partner (another allele, or an indel anchored there)
                u = cvgen.small_variant(r, ref, t, seq, pos, r.choice(['SNV', 'SNV', 'INS', 'DEL']))
                if u and not cvgen.overlaps_any(u, out) and \
                        not any(x['start'] < u['end'] and u['start'] < x['end'] for x in out if x is not w):
                    out.append(u)
    return out


def make_case(r, mode, work, idx, tier):
    if mode == 'asfs' and os.environ.get('VERIF_NESTED') != '1':
        # variants nested in inserted segments are only generated on request (see DESIGN 12.6: the tool's output for them has
        # defects that are not all classified, and is not deterministic run to run)
        mode = 'as'
    kw = dict(n_genes=1, coding_p=0.8, max_exons=3, aa_len=(14, 30), nc_len=(50, 110))
    if mode == 'nf':
        kw.update(nf_p=0.6, coding_p=1.0)
    if mode in ('sec', 'sect'):
        kw.update(sec_p=0.8, coding_p=1.0)
    if mode == 'multi':
        kw.update(n_genes=3, isoform_p=0.5)
    if mode == 'nc':
        kw.update(coding_p=0.0)
    stop_at = None
    if mode == 'stop':
        ref, t0, stop_at = stop_reference(r, coding=r.random() < 0.4)
    elif mode == 'lowmass':
        # glycine / alanine rich proteins: peptides whose mass is far below what their length suggests
        b = refgen.Builder(r)
        prot = 'M' + tryptic_protein(r, r.randrange(3, 7), alphabet='GGGGGAAAS' + r.choice(['', 'T', 'V', 'GA']), plen=(4, 14))
        u5 = r.randrange(3, 10)
        seq = refgen.rand_dna(r, u5) + refgen.encode(r, prot) + r.choice(refgen.STOPS) + refgen.rand_dna(r, r.randrange(6, 15))
        b.add_gene(seq, r.choice([1, -1]), r.randrange(1, 3), True, u5, u5 + 3 * len(prot) + 3, (), (), prot)
        ref = b.finish()
    elif mode == 'sect' and r.random() < 0.5:
        # selenoprotein with two nearby Sec codons and no cleavage site between them (an in-frame insertion / deletion
        # between them moves the second one relative to the first)
        b = refgen.Builder(r)
        nokr = 'ACDEFGHILMNPQSTVWY'
        mid = ''.join(r.choice(nokr) for _ in range(r.randrange(2, 6)))
        prot = 'M' + tryptic_protein(r, r.randrange(1, 3)) + ''.join(r.choice(nokr) for _ in range(r.randrange(1, 4))) + 'U' + mid + 'U' + \
            ''.join(r.choice(nokr) for _ in range(r.randrange(1, 5))) + r.choice('KR') + tryptic_protein(r, r.randrange(1, 3))
        cds = ''.join('TGA' if a == 'U' else r.choice(refgen.AA2CODONS[a]) for a in prot)
        u5 = r.randrange(3, 10)
        seq = refgen.rand_dna(r, u5) + cds + r.choice(['TAA', 'TAG']) + refgen.rand_dna(r, r.randrange(6, 16))
        secs = [u5 + 3 * k for k, a in enumerate(prot) if a == 'U']
        b.add_gene(seq, r.choice([1, -1]), r.randrange(1, 3), True, u5, u5 + len(cds) + 3, secs, (), prot)
        ref = b.finish()
    elif mode in ('as', 'asfs'):
        # multi-exon transcript with introns long enough to donate inserted / substituted segments
        b = refgen.Builder(r)
        if mode == 'asfs' or r.random() < 0.6:
            seq, cs, ce, secs, prot = refgen.make_coding_tx_seq(r, r.randrange(24, 40), r.randrange(3, 10), r.randrange(6, 16))
            b.add_gene(seq, r.choice([1, -1]), r.randrange(3, 5), True, cs, ce, secs, (), prot, intron=(10, 24),
                       flank=(r.randrange(0, 6), r.randrange(0, 6)))
        else:
            b.add_gene(refgen.rand_noncoding(r, r.randrange(90, 150)), r.choice([1, -1]), r.randrange(3, 5), False, intron=(10, 24),
                       flank=(r.randrange(0, 6), r.randrange(0, 6)))
        ref = b.finish()
    else:
        ref = refgen.random_reference(r, **kw)
    if mode == 'startnf':
        for t in ref.txs.values():
            if t.coding and r.random() < 0.7:
                t.tags.append('cds_start_NF')
    d = os.path.join(work, f'c{idx}')
    paths = ref.write(d)
    allv, txrecs = [], []
    secmap = {}
    as_lines = []
    for t in ref.txs.values():
        if mode == 'multi' and r.random() < 0.3:
            continue
        vs = cvgen.random_small_variants(r, ref, t, r.randrange(1, 6) if mode != 'stop' else r.randrange(0, 3), dense=r.random() < 0.5)
        if mode == 'stop':
            sv = stop_variants(r, ref, t, stop_at)
            vs = sv + [v for v in vs if not any(x['start'] <= v['end'] and v['start'] <= x['end'] for x in sv)]
        if mode == 'adj':
            vs = add_adjacent_partners(r, ref, t, vs)
        if mode == 'sect' and t.sec:
            # a variant ending right at the Sec codon plus one further upstream
            seq = t.seq(ref.chroms[ref.genes[t.gene].chrom])
            sp = t.sec[0]
            cand = [cvgen.small_variant(r, ref, t, seq, sp - 1, 'SNV'),
                    cvgen.small_variant(r, ref, t, seq, r.randrange(max(t.cds_start + 3, sp - 18), sp - 2), r.choice(['SNV', 'SNV', 'INS', 'DEL']))
                    if sp - 2 > max(t.cds_start + 3, sp - 18) else None]
            if len(t.sec) >= 2 and t.sec[1] - t.sec[0] >= 9:
                # an in-frame insertion / deletion of one codon between the two Sec codons
                for _ in range(20):
                    w = cvgen.small_variant(r, ref, t, seq, r.randrange(t.sec[0] + 2, t.sec[1] - 3), r.choice(['INS', 'DEL']))
                    if w and abs(len(w['ref']) - len(w['alt'])) == 3 and w['end'] <= t.sec[1] and w['start'] >= t.sec[0] + 2:
                        cand = [w] + ([cand[1]] if len(cand) > 1 and r.random() < 0.5 else []); break
            cand = [v for v in cand if v]
            keep = []
            for v in cand:
                if not any(x['start'] <= v['end'] and v['start'] <= x['end'] for x in keep):
                    keep.append(v)
            cand = keep
            vs = cand + [v for v in vs if not any(x['start'] <= v['end'] and v['start'] <= x['end'] for x in cand)]
        asr = []
        if mode == 'asfs':
            # an inserted intronic segment that carries a frameshifting indel of its own, and substitutions downstream of it in
            # the transcript (they are then read in the shifted frame)
            asr = cvgen.as_records(r, ref, t, n=1, min_tx_pos=(t.cds_start + 3) if t.coding else 3, nested_p=1.0,
                                   kinds=['ins_full', 'ins_part'], nested_fs=True)
            seq_ = t.seq(ref.chroms[ref.genes[t.gene].chrom])
            vs = []
            if asr:
                lo_ = asr[0]['var']['end'] + 1
                for _ in range(r.randrange(1, 4)):
                    if lo_ < len(seq_) - 2:
                        v_ = cvgen.small_variant(r, ref, t, seq_, r.randrange(lo_, len(seq_) - 1), 'SNV')
                        if v_ and not cvgen.overlaps_any(v_, vs) and not any(x['start'] <= v_['end'] and v_['start'] <= x['end'] for x in vs):
                            vs.append(v_)
            as_lines += asr
        if mode == 'as':
            asr = cvgen.as_records(r, ref, t, n=r.choice([1, 1, 2]), min_tx_pos=(t.cds_start + 3) if t.coding else 3,
                                   nested_p=0.6 if os.environ.get('VERIF_NESTED') == '1' else 0.0)
            vs = vs[:r.randrange(0, 4)]
            as_lines += asr
        if vs or asr:
            allv += vs
            recs = [cvgen.var_record(v) for v in vs]
            as_meta = []
            for a in asr:
                recs.append(cvgen.var_record(a['var']))
                m = a['meta']
                as_meta.append(dict(idx=len(recs), kind=m['kind'], start=m['start'], end=m['end'], dstart=m['dstart'], dend=m['dend'],
                                    ref=m['ref'], nested=m.get('nested', [])))
                allv += a.get('nested_gvf', [])
            tr = dict(tx=cvgen.tx_record(ref, t), vars=recs)
            tr['as'] = as_meta
            if as_meta:
                tr['struct'] = cvgen.tx_struct(ref, t)
            txrecs.append(tr)
            secmap[t.id] = cvgen.sec_ids(ref, t)
    if not allv and not as_lines:
        return None
    g = os.path.join(d, 'v.gvf')
    cvgen.write_gvf(g, allv)
    gvfs = [g] if allv else []
    if as_lines:
        ga = os.path.join(d, 'as.gvf')
        with open(ga, 'w') as f:
            f.write(cvgen.AS_HEAD.format(parser='parseRMATS', source='AltSplicing'))
            for a in sorted(as_lines, key=lambda x: x['gpos']):
                f.write(a['line'] + '\n')
        gvfs.append(ga)
    rules = ('trypsin',)
    if mode == 'rules':
        rules = QUICK_RULES if tier == 'quick' else ALL_RULES
    cfg = cvgen.rand_cfg(r, rules=rules, exc_p=0.6 if mode == 'exc' else 0)
    if mode in ('adj', 'stop'):
        cfg['max_adj'] = 2
    if mode == 'sect':
        cfg['sect'] = True
    if mode == 'w2f':
        cfg['w2f'] = True
    if mode == 'lowmass':
        cfg['min_mw'] = f"{r.randrange(250, 1200)}.00005"
        cfg['max_len'] = 25
    a = dict(paths)
    a.update(cvgen.cli_cfg(cfg))
    a.update(input_path=gvfs, output_path=os.path.join(d, 'out.fasta'), max_variants_per_node=[-1],
             additional_variants_per_misc=[-1])
    if mode == 'collapse':
        a.update(min_nodes_to_collapse=r.choice([0, 1, 3]), naa_to_collapse=r.choice([1, 2, 5]))
    case = dict(txs=txrecs, cfg=cvgen.spec_cfg(cfg), proteome=cvgen.proteome_record(ref))
    return dict(mode=mode, args=a, case=case, cfg=cfg, gtf=ref.gtf_lines(), chroms=ref.chroms, secmap=secmap,
                variants=[(v['tx'], v['start'], v['ref'], v['alt'], v['id']) for v in allv] +
                         [(a['var']['tx'], a['var']['start'], a['var']['ref'], a['var']['alt'], a['var']['id'], a['line']) for a in as_lines])


def run_tool(items, want_table=False, extra_args=None, timeouts=None):
    nj = env.NCPU
    jl = []
    for it in items:
        a = dict(it['args'])
        if extra_args:
            a.update(extra_args)
        jl.append(dict(cmd='callVariant', args=a, want_table=want_table, timeouts=timeouts))
    res = jobs.run_jobs('run_cv_batch.py', [dict(jobs=jl[k::nj]) for k in range(nj)], timeout=3400)
    flat = [None] * len(jl)
    for k, rr in enumerate(res):
        if not rr.get('ok'):
            return None, f"worker failed: {rr.get('error')} {rr.get('stderr', '')[-400:]}"
        for j, x in enumerate(rr['results']):
            flat[k + j * nj] = x
    return flat, None


def tlc_cases(module, cases, work, tag, rep):
    """Shard cases over JVMs; returns list of raw verdict strings per case index (0-based)."""
    nj = min(env.NCPU, max(1, len(cases) // 6))
    def shard(k):
        f = os.path.join(work, f'{tag}_{k}.json')
        json.dump(tlc.jsonable(cases[k::nj]), open(f, 'w'))
        return tlc.run(module, module + '.cfg', workers=1, envvars=dict(CASES_FILE=f), timeout=3400, heap='2g')
    with ThreadPoolExecutor(nj) as ex:
        rs = list(ex.map(shard, range(nj)))
    out = [[] for _ in cases]
    for k, rr in enumerate(rs):
        rep.tlc(f'{module} {tag} shard {k}', rr)
        if not rr.ok:
            rep.machinery(f"{module} shard {k}: rc={rr.rc} {rr.errors[:2]} {rr.out[-500:]}")
            continue
        for s in rr.printed:
            m = re.match(r'<<"V", (\d+), (.*)>>$', s)
            if m:
                out[(int(m.group(1)) - 1) * nj + k].append(m.group(2))
    return out


def parse_sets(v):
    """'"diff", "missing", {...}, "extra", {...}' -> (kind, missing list, extra list)"""
    kind = re.match(r'"(\w+)"', v).group(1)
    def pepset(label):
        m = re.search(r'"%s", \{(.*?)\}(?:, "|$)' % label, v)
        if not m:
            return []
        return [''.join(re.findall(r'"(.)"', x)) for x in re.findall(r'<<(.*?)>>', m.group(1))]
    return kind, pepset('missing'), pepset('extra')


def campaign(rep, tier, work, salt='cv'):
    r = env.rng(salt)
    n = 510 if tier == "quick" else 13600
    if os.environ.get('VERIF_NESTED') == '1':
        n += 60 if tier == "quick" else 1500
    items = []
    for i in range(n):
        it = make_case(r, MODES[i % len(MODES)], work, i, tier)
        if it:
            items.append(it)
    return items


def classify(it, verdicts):
    """-> (kind, missing, extra) with kind in ok/context/lookbehind/diff/badcase"""
    for v in verdicts:
        kind, missing, extra = parse_sets(v)
        if kind in ('context', 'diff', 'sibling'):
            rule = it['cfg']['rule']
            if kind == 'diff' and rule in LOOKBEHIND:
                kind = 'lookbehind'
            if it['mode'] == 'collapse' and it['args'].get('naa_to_collapse', 5) < 2:
                kind = 'collapse_naa1'
        return kind, missing, extra
    return 'noverdict', [], []


def known_key(it, kind):
    return f"{kind}:{it['cfg']['rule']}:{it['cfg']['exc']}"


def replay_obj(it, observed, missing, extra):
    return dict(mode=it['mode'], cfg=it['cfg'], gtf=it['gtf'], chroms=it['chroms'], variants=it['variants'],
                observed=observed, missing=missing, extra=extra,
                args={k: str(v) for k, v in it['args'].items() if k not in ('input_path',)})


def oracle_check(rep, tier, which):
    work = env.scratch(which.lower() + '_')
    items = campaign(rep, tier, work)
    flat, err = run_tool(items)
    if err:
        rep.machinery(err)
        return
    cases, keep = [], []
    for it, x in zip(items, flat):
        key = env.canon_hash([it['gtf'], it['variants'], it['cfg'], it['mode']])
        if not x['ok']:
            rep.case(1, key)
            rep.violation(f"crash:{it['cfg']['rule']}:{key}", f"callVariant raised {x['error']} (mode {it['mode']})",
                          replay_obj(it, None, [], []))
            continue
        c = dict(it['case'])
        c['observed'] = [list(s) for _, s in x['fasta']]
        cases.append(c)
        keep.append((it, [s for _, s in x['fasta']], key))
    verdicts = tlc_cases('CallVariantOracle', cases, work, 'oracle', rep)
    stats = {}
    for (it, obs, key), vs in zip(keep, verdicts):
        kind, missing, extra = classify(it, vs)
        stats[(it['mode'], kind)] = stats.get((it['mode'], kind), 0) + 1
        rep.traces(1)
        rep.case(1, key if (obs or missing) else None)
        if kind in ('noverdict', 'badcase'):
            rep.machinery(f"no usable verdict for case {key} ({kind})")
            continue
        bad = missing if which == 'C01' else extra
        if kind == 'ok' or not bad:
            continue
        what = (f"callVariant {'misses' if which == 'C01' else 'reports unrealizable'} peptides {bad[:6]} "
                f"(mode {it['mode']}, rule {it['cfg']['rule']}, exception '{it['cfg']['exc']}')")
        if kind in ('context', 'lookbehind', 'collapse_naa1'):
            rep.violation(known_key(it, kind), what, replay_obj(it, obs, missing, extra))
        elif kind == 'sibling':
            rep.violation('nested_variant_site_borrowed', what + ' - every one is cut at (or spans) a cleavage site that exists only in a '
                          'sibling form of an alternative-splicing record with nested variants', replay_obj(it, obs, missing, extra))
        else:
            rep.violation(f"oracle:{key}", what, replay_obj(it, obs, missing, extra))
    rep.part('oracle', by_mode_and_verdict={f'{m}:{k}': v for (m, k), v in sorted(stats.items())})
    if keep:
        it, obs, key = keep[0]
        rep.sample(dict(mode=it['mode'], cfg=it['cfg'], variants=it['variants'], transcript=''.join(it['case']['txs'][0]['tx']['seq']),
                        fasta=obs[:10]))
    return items, flat, work


def check_c01(tier):
    rep = report.Report('C01', tier)
    rep.cov['rule'] = ("random synthetic references (coding/non-coding, both strands, 1-3 exons, NF tags, Sec, several genes) x "
                       "1-5 small variants per transcript (SNV, 1-3 nt insertions/deletions, MNV; half as dense clusters) x cleavage "
                       "settings; FASTA of the real callVariant vs Complete = union over compatible haplotypes of the digest, minus "
                       "reference digest and canonical pool, computed by TLC from Peptides.tla; complexity limits off; collapse knobs "
                       "varied; non-trivial = expected or observed set non-empty")
    rep.assumptions += ["variants lie inside one exon, at or after the base following the start codon (start-codon variants are "
                        "filtered by the tool and outside the property)", "GENCODE GTF convention (3'UTR includes the stop codon)",
                        "fusion / circRNA / alternative-splicing units are covered by C15-C17 and the structural tiers, not here"]
    oracle_check(rep, tier, 'C01')
    # fusion backbones: completeness of the peptides of the fused sequence (FusionTrace clause fusion_peptides_complete)
    from checks import c15
    c15.check_c15(tier, rep=rep, only_complete=True)
    # circRNA backbones: completeness of the peptides of the circle (CircTrace clause circ_peptides_complete)
    from checks import c17
    c17.check_c17(tier, rep=rep, only='circ_peptides_complete')
    return rep.finish()


def check_c02(tier):
    rep = report.Report('C02', tier)
    rep.cov['rule'] = ("same campaign as C01, checking FASTA subset of Sound; plus binding complexity limits "
                       "(max-variants-per-node 0/1/2, additional-variants-per-misc 0/1) and injected timeouts walking the retry "
                       "ladder: outputs must stay inside Sound and inside the unlimited output")
    res = oracle_check(rep, tier, 'C02')
    if res:
        limits_check(rep, tier, *res)
    # circRNA backbones: every CIRC-labelled peptide is a product of the circle (CircTrace clause circ_peptides_sound)
    from checks import c17
    c17.check_c17(tier, rep=rep, only='circ_peptides_sound')
    # fusion backbones: every FUSION-labelled peptide is a product of the fused sequence (FusionTrace clause peptides_from_fused_sequence)
    from checks import c15
    c15.check_c15(tier, rep=rep, only='peptides_from_fused_sequence')
    return rep.finish()


def limits_check(rep, tier, items, flat, work):
    """Binding complexity limits and timeout-driven retries may only remove peptides."""
    r = env.rng('limits')
    sel = [k for k, (it, x) in enumerate(zip(items, flat)) if x and x['ok'] and x['fasta'] and it['mode'] in ('base', 'nc', 'multi', 'mnv')]
    r.shuffle(sel)
    sel = sel[:60 if tier == 'quick' else 1500]
    n_bad = 0
    for mv, av, to in ((1, 0, None), (2, 1, None), (0, 0, None), (3, 2, 'ladder')):
        sub = [items[k] for k in sel]
        extra = dict(max_variants_per_node=[mv] if to is None else [3, 2, 1], additional_variants_per_misc=[av] if to is None else [2, 1, 0])
        tmo = None
        if to:
            tmo = {}
            for it in sub:
                for t in it['case']['txs']:
                    tmo[t['tx']['id']] = r.randrange(1, 3)
        out, err = run_tool(sub, extra_args=extra, timeouts=tmo)
        if err:
            rep.machinery(err); return
        for k, it, x in zip(sel, sub, out):
            full = {s for _, s in flat[k]['fasta']}
            rep.case(1, (k, mv, av, to))
            if not x['ok']:
                if 'Failed to finish transcript' in x['error'] and to:
                    continue
                rep.violation(f"limits-crash:{mv}:{av}:{env.canon_hash(it['variants'])}",
                              f"callVariant raised {x['error']} with max_variants_per_node={extra['max_variants_per_node']}",
                              replay_obj(it, None, [], []))
                continue
            got = {s for _, s in x['fasta']}
            if not got <= full:
                rep.violation(f"limits:{mv}:{av}:{to}:{env.canon_hash(it['variants'])}",
                              f"restricting complexity (max_variants_per_node={extra['max_variants_per_node']}, "
                              f"additional_variants_per_misc={extra['additional_variants_per_misc']}, timeouts={bool(to)}) "
                              f"invented peptides {sorted(got - full)[:5]}", replay_obj(it, sorted(got), [], sorted(got - full)))
    rep.part('limits', cases=len(sel), settings=4)


def check_c04(tier):
    rep = report.Report('C04', tier)
    rep.cov['rule'] = ("FASTA + peptide table of callVariant runs (campaign of C01) and FASTA of callNovelORF / callAltTranslation "
                       "runs: no canonical peptide (TLA+ pool), limits, no X/*, each sequence once, table pairs = FASTA pairs, rows "
                       "slice the peptide, header entries unique; non-trivial = non-empty FASTA")
    work = env.scratch('c04_')
    items = campaign(rep, tier, work)
    r2 = env.rng('c04il')
    for k in range(30 if tier == 'quick' else 600):
        it = il_case(r2, work, k)
        if it:
            items.append(it)
    flat, err = run_tool(items, want_table=True)
    if err:
        rep.machinery(err)
        return rep.finish()
    cases, keep = [], []
    for it, x in zip(items, flat):
        if not x['ok']:
            continue    # crashes are C01's business
        cases.append(output_case(it['case']['cfg'], it['case']['proteome'], x['fasta'], x.get('table')))
        keep.append((it, x))
    # the same limits must hold for transcripts that were retried after a timeout (guarded hook; ladder 7,6 / 2,1)
    rsel = [it for it in items if it['mode'] in ('base', 'multi', 'nc', 'stop', 'lowmass') and it['cfg']['max_len'] < 25]
    rsel = rsel[:40 if tier == 'quick' else 800]
    if rsel:
        tmo = {t['tx']['id']: 1 for it in rsel for t in it['case']['txs']}
        rflat, err = run_tool(rsel, want_table=True, timeouts=tmo,
                              extra_args=dict(max_variants_per_node=[7, 6], additional_variants_per_misc=[2, 1]))
        if err:
            rep.machinery(err)
            return rep.finish()
        for it, x in zip(rsel, rflat):
            if x['ok']:
                cases.append(output_case(it['case']['cfg'], it['case']['proteome'], x['fasta'], x.get('table')))
                keep.append((dict(it, mode=it['mode'] + '+retry', variants=(it['variants'], 'retried after an injected timeout')), x))
    other = other_commands(rep, tier, work)
    for cfg, proteome, fasta, it in other:
        cases.append(output_case(cfg, proteome, fasta, None)); keep.append((it, dict(fasta=fasta)))
    verdicts = tlc_cases('OutputTrace', cases, work, 'out', rep)
    for (it, x), vs in zip(keep, verdicts):
        key = env.canon_hash([it.get('variants'), it['cfg'], it.get('gtf'), it.get('cmd')])
        rep.case(1, key if x['fasta'] else None)
        rep.traces(1)
        bad = [v.strip('"') for v in vs if v.strip('"') != 'done']
        if 'done' not in [v.strip('"') for v in vs]:
            rep.machinery(f"no verdict for output case {key}")
        if bad:
            rep.violation(f"hygiene:{key}:{','.join(sorted(bad))}",
                          f"{it.get('cmd', 'callVariant')} output violates {sorted(bad)} (rule {it['cfg']['rule']})",
                          dict(cfg=it['cfg'], gtf=it.get('gtf'), variants=it.get('variants'), fasta=x['fasta'][:50]))
    if keep:
        rep.sample(dict(cfg=keep[0][0]['cfg'], fasta=keep[0][1]['fasta'][:5]))
    return rep.finish()


def output_case(cfg, proteome, fasta, table):
    rows = []
    if table:
        for line in table.splitlines():
            if line.startswith('#') or not line.strip():
                continue
            f = line.split('\t')
            rows.append(dict(seq=list(f[0]), header=f[1], sub=list(f[2]), start=int(f[3]), end=int(f[4])))
    return dict(cfg=cfg, proteome=proteome, fasta=[dict(hdrs=h.split(' '), seq=list(s)) for h, s in fasta],
                table=rows, hasTable=table is not None)


def il_case(r, work, idx):
    """callVariant input whose variant peptides equal canonical peptides with I replaced by L (A>C at the first base of Ile codons),
    with up to 4 miscleavages: only the global canonical pool (with its I->L images) can filter them."""
    b = refgen.Builder(r)
    prot = 'M' + ''.join(r.choice('IIKRAGSTLVDEQ') for _ in range(r.randrange(20, 34)))
    cds = ''.join(r.choice([c for c in refgen.AA2CODONS[a] if not (a == 'I' and c[0] != 'A')]) for a in prot)
    seq = refgen.rand_dna(r, 6) + cds + 'TAA' + refgen.rand_dna(r, 9)
    t = b.add_gene(seq, r.choice([1, -1]), r.randrange(1, 3), True, 6, 6 + len(cds) + 3, (), (), prot)
    ref = b.finish()
    d = os.path.join(work, f'il{idx}')
    paths = ref.write(d)
    tseq = t.seq(ref.chroms['chr1'])
    vs = []
    for k, a in enumerate(prot):
        if a == 'I' and k > 0 and r.random() < 0.7:
            pos = 6 + 3 * k
            gs = cvgen.gene_pos(ref, t, pos)
            vs.append(dict(tx=t.id, gene=t.gene, start=pos, end=pos + 1, ref='A', alt='C', id=f'SNV-{gs + 1}-A-C', type='SNV',
                           gstart=gs, gend=gs + 1))
    if not vs:
        return None
    g = os.path.join(d, 'v.gvf'); cvgen.write_gvf(g, vs)
    cfg = cvgen.rand_cfg(r); cfg['misc'] = r.choice([2, 3, 4]); cfg['max_len'] = 25
    a = dict(paths); a.update(cvgen.cli_cfg(cfg))
    a.update(input_path=[g], output_path=os.path.join(d, 'out.fasta'), max_variants_per_node=[-1], additional_variants_per_misc=[-1])
    return dict(mode='il', args=a, cfg=cfg, gtf=ref.gtf_lines(), chroms=ref.chroms,
                variants=[(v['tx'], v['start'], v['ref'], v['alt'], v['id']) for v in vs],
                case=dict(txs=[], cfg=cvgen.spec_cfg(cfg), proteome=cvgen.proteome_record(ref)))


def other_commands(rep, tier, work):
    """callNovelORF and callAltTranslation outputs for the hygiene check."""
    r = env.rng('c04other')
    n = 40 if tier == 'quick' else 800
    jl, meta = [], []
    for i in range(n):
        alt = i % 2 == 1
        ref = refgen.random_reference(r, n_genes=2, coding_p=0.9 if alt else 0.4, max_exons=2, aa_len=(14, 30),
                                      nc_len=(50, 110), sec_p=0.7 if alt else 0.0)
        if not alt and i % 4 == 0:
            # a non-coding gene that shares its exons with a coding transcript: its ORF peptides are canonical peptides and
            # only the global canonical pool can remove them
            b = refgen.Builder(r)
            seq, cs, ce, secs, prot = refgen.make_coding_tx_seq(r, r.randrange(18, 30), r.randrange(3, 9), r.randrange(6, 12))
            t = b.add_gene(seq, r.choice([1, -1]), r.randrange(1, 3), True, cs, ce, secs, (), prot)
            b.add_shadow_gene(t)
            ref = b.finish()
        d = os.path.join(work, f'o{i}')
        paths = ref.write(d)
        cfg = cvgen.rand_cfg(r)
        if i % 4 == 0:
            cfg['misc'] = r.choice([2, 3, 4])
        a = dict(paths); a.update(cvgen.cli_cfg(cfg)); a.update(output_path=os.path.join(d, 'out.fasta'))
        if alt:
            a.update(selenocysteine_termination=True, w2f_reassignment=True)
            jl.append(dict(cmd='callAltTranslation', args=a))
        else:
            a.update(output_orf=None, min_tx_length=21, orf_assignment='max', w2f_reassignment=r.random() < 0.5,
                     coding_novel_orf=r.random() < 0.3, inclusion_biotypes=None, exclusion_biotypes=None)
            jl.append(dict(cmd='callNovelORF', args=a))
        meta.append((cvgen.spec_cfg(cfg), cvgen.proteome_record(ref),
                     dict(cfg=cfg, gtf=ref.gtf_lines(), cmd=jl[-1]['cmd'])))
    nj = env.NCPU
    res = jobs.run_jobs('run_cv_batch.py', [dict(jobs=jl[k::nj]) for k in range(nj)], timeout=3000)
    out = []
    flat = [None] * len(jl)
    for k, rr in enumerate(res):
        if not rr.get('ok'):
            rep.machinery(f"worker failed: {rr.get('error')} {rr.get('stderr', '')[-300:]}"); return []
        for j, x in enumerate(rr['results']):
            flat[k + j * nj] = x
    for (cfg, prot, it), x in zip(meta, flat):
        if x['ok'] and x['fasta'] is not None:
            out.append((cfg, prot, x['fasta'], it))
        elif not x['ok']:
            rep.violation(f"crash:{it['cmd']}:{env.canon_hash(it['gtf'])}", f"{it['cmd']} raised {x['error']}", it)
    return out


def check_c03(tier):
    rep = report.Report('C03', tier)
    rep.cov['rule'] = ("campaign of C01 (linear transcripts, small variants): every (peptide, header entry) pair of every FASTA is "
                       "checked by TLC: named backbone exists, every named variant id is a record of that transcript in the input, "
                       "applying exactly the named variants yields a translation in which the peptide is a digestion product, and no "
                       "entry string occurs twice; non-trivial = FASTA with at least one entry")
    work = env.scratch('c03_')
    items = campaign(rep, tier, work, salt='cv')
    # headers are most interesting with frameshifts: add indel-rich cases
    r = env.rng('c03extra')
    extra = []
    for i in range(120 if tier == 'quick' else 4000):
        it = make_case(r, 'base', work, 100000 + i, tier)
        if it:
            extra.append(it)
    items += extra
    flat, err = run_tool(items)
    if err:
        rep.machinery(err)
        return rep.finish()
    cases, keep = [], []
    for it, x in zip(items, flat):
        if not x['ok']:
            continue
        idx = {t['tx']['id']: k + 1 for k, t in enumerate(it['case']['txs'])}
        entries = []
        for h, s in x['fasta']:
            for e in h.split(' '):
                f = e.split('|')
                toks = [y for y in f[1:-1] if not re.fullmatch(r'ORF\d+', y)]
                ids = [y for y in toks if not y.startswith(('SECT-', 'W2F-'))]
                sect = [it.get('secmap', {}).get(f[0], {}).get(y, -1) for y in toks if y.startswith('SECT-')]
                w2f = [int(y[4:]) for y in toks if y.startswith('W2F-')]
                entries.append(dict(tx=idx.get(f[0], 0), ids=ids, sect=sect, w2f=w2f, seq=list(s), label=e))
        c = dict(txs=it['case']['txs'], cfg=it['case']['cfg'], entries=entries)
        cases.append(c); keep.append((it, x, len(entries)))
    verdicts = tlc_cases('HeaderOracle', cases, work, 'hdr', rep)
    n_entries = 0
    n_bad = {}
    for (it, x, ne), vs in zip(keep, verdicts):
        key = env.canon_hash([it['gtf'], it['variants'], it['cfg'], it['mode']])
        rep.traces(1); rep.case(1, key if ne else None)
        n_entries += ne
        if not vs:
            rep.machinery(f"no verdict for header case {key}")
        for v in vs:
            kind = re.match(r'"(\w+)"', v).group(1)
            if kind == 'ok':
                continue
            ro = replay_obj(it, [s for _, s in x['fasta']], [], [])
            ro['headers'] = x['fasta']
            if kind == 'duplicate_entry':
                rep.violation(f"dup:{key}", "a header entry string occurs twice in one FASTA", ro)
                continue
            # "bad", {<<label, class>>, ...}
            by_class = {}
            for lab, cls in re.findall(r'<<"([^"]+)", "(\w+)">>', v):
                by_class.setdefault(cls, []).append(lab)
            if not by_class:
                rep.machinery(f"unparsable header verdict for case {key}: {v[:200]}")
            for cls, labels in sorted(by_class.items()):
                n_bad[cls] = n_bad.get(cls, 0) + len(labels)
                if it['mode'] == 'collapse' and it['args'].get('naa_to_collapse', 5) < 2:
                    rep.violation(known_key(it, 'collapse_naa1'), f"header entries {labels[:4]} are not witnesses (--naa-to-collapse 1)", ro)
                elif cls == 'missing_frameshift':
                    rep.violation('header_omits_upstream_frameshift', f"header entries {labels[:4]} omit a frameshifting variant that is "
                                  f"needed to produce the peptide", ro)
                elif cls == 'omits_upstream':
                    rep.violation('header_omits_upstream_variants', f"header entries {labels[:4]} omit input variants upstream of the "
                                  f"peptide that are needed to produce it", ro)
                elif cls == 'names_overlapping':
                    rep.violation('header_names_overlapping_variants', f"header entries {labels[:4]} name variants whose reference spans "
                                  f"overlap; a compatible subset of them produces the peptide", ro)
                elif cls == 'nested_as':
                    rep.violation('header_of_nested_as_variant', f"header entries {labels[:4]} involve an alternative-splicing record with "
                                  f"nested variants and are not witnesses", ro)
                elif cls == 'names_unused_partner':
                    rep.violation('header_names_unused_adjacent_partner', f"header entries {labels[:4]} also name the upstream member of "
                                  f"a merged adjacent pair that the peptide does not carry", ro)
                elif cls == 'names_other_allele':
                    rep.violation('header_names_other_allele', f"header entries {labels[:4]} name another allele of a multi-allelic site than "
                                  f"the one the peptide carries", ro)
                elif cls == 'dense_cluster':
                    rep.violation('header_in_dense_variant_cluster', f"header entries {labels[:4]} differ from the haplotype that produces the "
                                  f"peptide only in variants of a dense cluster (another input variant within 3 nt)", ro)
                elif it['cfg']['rule'] in LOOKBEHIND and cls in ('context_witness', 'no_witness'):
                    rep.violation(known_key(it, 'lookbehind' if cls == 'no_witness' else 'context'),
                                  f"header entries {labels[:4]} are not witnesses (rule whose pattern looks beyond P1/P1')", ro)
                elif cls == 'context_witness' and (it['cfg']['rule'] in LOOKBEHIND or it['cfg']['exc']):
                    rep.violation(known_key(it, 'context'), f"header entries {labels[:4]} are not witnesses (context-dependent rule)", ro)
                else:
                    rep.violation(f"witness:{key}", f"header entries {labels[:4]} are not truthful witnesses: applying exactly the named "
                                  f"variants does not yield the peptide (mode {it['mode']}, rule {it['cfg']['rule']})", ro)
    rep.part('headers', entries_checked=n_entries, non_witness_by_class=n_bad)
    if keep:
        rep.sample(dict(variants=keep[0][0]['variants'], fasta=keep[0][1]['fasta'][:5]))
    return rep.finish()


def label_tokens(entry):
    out = []
    for f in entry.split('|'):
        if f.startswith('SECT-'):
            out.append('SECT')
        elif f.startswith('W2F-'):
            out.append('W2F')
        elif re.fullmatch(r'ORF\d+', f):
            out.append('ORF')
        elif re.match(r'[12]-\D', f):
            out.append(f[2:])        # donor- / acceptor-side variant of a fusion entry
        else:
            out.append(f)
    return out


def fasta_case(fa):
    return [dict(seq=list(s), labels=[label_tokens(e) for e in h.split(' ')]) for h, s in fa]


def corpus_sect_case(work):
    """Selenoprotein MRIPWALETPPFYU with a deletion anchored on the last base of the Sec codon."""
    path = os.path.join(env.VERIF, 'corpus', 'C05_sect_reference.json')
    if not os.path.exists(path):
        return None
    rp = json.load(open(path))['replay']
    d = os.path.join(work, 'corpus_sect'); os.makedirs(d, exist_ok=True)
    gtf = rp['gtf']; chrom = rp['chroms']['chr1']
    open(os.path.join(d, 'annotation.gtf'), 'w').write('\n'.join(gtf) + '\n')
    open(os.path.join(d, 'genome.fasta'), 'w').write('>chr1\n' + chrom + '\n')
    open(os.path.join(d, 'proteome.fasta'), 'w').write('>ENSP00001.1|ENST00001.1|ENSG00001.1|OTTHUMG0|-|GN00001|14\nMRIPWALETPPFYU\n')
    txid, start, rf, alt, vid = rp['variants'][0]
    g = os.path.join(d, 'v.gvf')
    cvgen.write_gvf(g, [dict(gene='ENSG00001.1', tx=txid, gstart=start, id=vid, ref=rf, alt=alt)])
    cfg = dict(rule='trypsin', exc='', misc=1, min_len=2, max_len=16, min_mw='0.00005')
    a = dict(genome_fasta=os.path.join(d, 'genome.fasta'), annotation_gtf=os.path.join(d, 'annotation.gtf'),
             proteome_fasta=os.path.join(d, 'proteome.fasta'))
    a.update(cvgen.cli_cfg(cfg))
    a.update(input_path=[g], output_path=os.path.join(d, 'out.fasta'), max_variants_per_node=[-1], additional_variants_per_misc=[-1])
    seq = chrom[4:62]
    tx = dict(seq=list(seq), coding=True, orfStart=4, orfEnd=46, startNF=False, endNF=False, sec=[43], id=txid)
    return dict(mode='corpus', args=a, cfg=cfg, gtf=gtf, chroms=rp['chroms'], variants=rp['variants'],
                case=dict(txs=[dict(tx=tx, vars=[])], cfg=cvgen.spec_cfg(cfg), proteome=[]))


def check_c05(tier):
    from checks import callrun
    rep = report.Report('C05', tier)
    rep.cov['rule'] = ("paired runs of one input: each relaxation (miscleavage+1, min-length-1, max-length+3, lower min-mw, SECT on, W2F on, "
                       "coding-novel-orf on, one more variant record) must keep every peptide and add only attributable ones; "
                       "restrictive switches (noncanonical-transcripts, backsplicing-only) must give a subset; inputs: the synthetic "
                       "campaign of C01 and the repository's demo data (fusion, circRNA, alternative splicing, too large for haplotype "
                       "enumeration); complexity limits off; non-trivial = the relaxed run adds at least one peptide")
    # design level: Complete / Sound of Peptides.tla are monotone in the variant set, the limits and the adjacency option, Complete
    # lies inside Sound, and the alt-translation flags can only remove forms of the unmodified transcript (MC_Peptides, exhaustive
    # over every subset of the candidate variant pools x the configuration lattice)
    mc = tlc.run('MC_Peptides', 'MC_Peptides.cfg', timeout=3000, heap='6g')
    rep.tlc('MC_Peptides.cfg', mc)
    if mc.violation:
        rep.violation(f'model:{mc.violation}', f"the definitional layer violates {mc.violation} (MC_Peptides)", dict(tail=mc.out[-1500:]))
    elif not mc.ok:
        rep.machinery(f"TLC failed on MC_Peptides: rc={mc.rc} {mc.errors[:2]} {mc.out[-300:]}")
    work = env.scratch('c05_')
    r = env.rng('c05')
    items = [it for it in campaign(rep, tier, work) if it['mode'] in ('base', 'nc', 'sec', 'multi', 'startnf', 'nf', 'sect', 'adj', 'stop')]
    r.shuffle(items)
    adj_items = [it for it in items if it['mode'] == 'adj'][:12 if tier == 'quick' else 300]
    items = adj_items + [it for it in items if it['mode'] != 'adj'][:(56 if tier == 'quick' else 1600) - len(adj_items)]
    jobs_, meta = [], []

    def add(it, kind, a_args, b_args, a_cfg, added=''):
        # every run writes to its own file (the runs of one input execute concurrently)
        n = len(jobs_)
        a_args = dict(a_args, output_path=os.path.join(os.path.dirname(a_args['output_path']), f'pair{n}_a.fasta'))
        b_args = dict(b_args, output_path=os.path.join(os.path.dirname(b_args['output_path']), f'pair{n}_b.fasta'))
        jobs_.append(dict(cmd='callVariant', args=a_args)); jobs_.append(dict(cmd='callVariant', args=b_args))
        meta.append(dict(it=it, kind=kind, a=a_cfg, added=added, a_args=a_args, b_args=b_args))

    for k, it in enumerate(items):
        a = dict(it['args']); cfg = it['cfg']; sc = it['case']['cfg']
        outb = lambda tag: dict(output_path=os.path.join(os.path.dirname(a['output_path']), f'out_{tag}.fasta'))
        if cfg['rule'] in ('trypsin', 'lysc', 'arg-c'):
            add(it, 'misc', a, dict(a, miscleavage=str(cfg['misc'] + 1), **outb('misc')), sc)
        if cfg['min_len'] > 1:
            add(it, 'minlen', a, dict(a, min_length=cfg['min_len'] - 1, **outb('minlen')), sc)
        add(it, 'maxlen', a, dict(a, max_length=cfg['max_len'] + 3, **outb('maxlen')), sc)
        if cfg['min_mw'] != '0.00005':
            add(it, 'minmw', a, dict(a, min_mw='0.00005', **outb('minmw')), sc)
        add(it, 'w2f', a, dict(a, w2f_reassignment=True, **outb('w2f')), sc)
        if it['mode'] in ('sec', 'sect'):
            add(it, 'sect', dict(a, selenocysteine_termination=False),  dict(a, selenocysteine_termination=True, **outb('sect')), sc)
        add(it, 'novelorf', a, dict(a, coding_novel_orf=True, **outb('novelorf')), sc)
        # one variant record less
        gvf = a['input_path'][0]
        lines = open(gvf).read().splitlines(keepends=True)
        recs = [j for j, l in enumerate(lines) if not l.startswith('#')]
        if len(recs) >= 2:
            # one record less; for inputs with adjacent / same-site records every record in turn
            for drop in (recs if it['mode'] == 'adj' else [r.choice(recs)]):
                vid = lines[drop].split('\t')[2]
                g2 = gvf.replace('.gvf', f'_less{drop}.gvf')
                open(g2, 'w').write(''.join(l for j, l in enumerate(lines) if j != drop))
                add(it, 'variant', dict(a, input_path=[g2] + list(a['input_path'][1:]), **outb('less')), a, sc, added=vid)
    # demo data: large inputs
    demo = dict(callrun.DEMO_REF)
    dd = os.path.join(work, 'demo'); os.makedirs(dd, exist_ok=True)
    base = dict(demo, cleavage_rule='trypsin', cleavage_exception=None, miscleavage='1', min_mw='500.00005', min_length=7, max_length=25,
                max_variants_per_node=[-1], additional_variants_per_misc=[-1])
    dcfg = cvgen.spec_cfg(dict(rule='trypsin', exc='', misc=1, min_len=7, max_len=25, min_mw='500.00005'))
    allg = [callrun.G[g] for g in ('snp', 'indel', 'fusion', 'circ', 'redi', 'alts')]
    A = dict(base, input_path=allg, output_path=os.path.join(dd, 'a.fasta'))
    fake = dict(mode='demo', cfg=dict(rule='trypsin', exc=''), gtf=None, chroms=None, variants=None)
    add(fake, 'misc', A, dict(A, miscleavage='2', output_path=os.path.join(dd, 'b1.fasta')), dcfg)
    add(fake, 'minlen', A, dict(A, min_length=6, output_path=os.path.join(dd, 'b2.fasta')), dcfg)
    add(fake, 'maxlen', A, dict(A, max_length=30, output_path=os.path.join(dd, 'b3.fasta')), dcfg)
    add(fake, 'minmw', A, dict(A, min_mw='0.00005', output_path=os.path.join(dd, 'b4.fasta')), dcfg)
    add(fake, 'sect', A, dict(A, selenocysteine_termination=True, output_path=os.path.join(dd, 'b5.fasta')), dcfg)
    add(fake, 'w2f', A, dict(A, w2f_reassignment=True, output_path=os.path.join(dd, 'b6.fasta')), dcfg)
    add(fake, 'novelorf', A, dict(A, coding_novel_orf=True, output_path=os.path.join(dd, 'b7.fasta')), dcfg)
    add(fake, 'restrict', A, dict(A, noncanonical_transcripts=True, output_path=os.path.join(dd, 'b8.fasta')), dcfg)
    add(fake, 'restrict', A, dict(A, backsplicing_only=True, output_path=os.path.join(dd, 'b9.fasta')), dcfg)
    for j, sub in enumerate((['snp', 'indel'], ['snp', 'indel', 'fusion'], ['snp', 'indel', 'fusion', 'circ'],
                             ['snp', 'indel', 'fusion', 'circ', 'redi'])):
        # one more GVF file
        add(fake, 'morefiles', dict(A, input_path=[callrun.G[g] for g in sub], output_path=os.path.join(dd, f'c{j}a.fasta')),
            dict(A, input_path=[callrun.G[g] for g in sub] + [callrun.G[('fusion', 'circ', 'redi', 'alts')[j]]],
                 output_path=os.path.join(dd, f'c{j}b.fasta')), dcfg)
    # regression input of the recorded finding "sect_drops_reference_sec_truncation" (corpus/C05_sect_reference.json)
    cit = corpus_sect_case(work)
    if cit:
        ca = dict(cit['args'])
        add(cit, 'sect', dict(ca, selenocysteine_termination=False), dict(ca, selenocysteine_termination=True), cit['case']['cfg'])
    # synthetic structural inputs: a donor transcript with two fusions, a circRNA and SNVs downstream of the first breakpoint,
    # other transcripts with SNVs; every record is left out in turn (one more record must only add peptides that name it)
    scfg = cvgen.spec_cfg(dict(rule='trypsin', exc='', misc=1, min_len=4, max_len=25, min_mw='0.00005'))
    for si, inp in enumerate(callrun.synthetic_inputs(tier, work, 'C07')):
        sd = os.path.join(work, f'struct{si}'); os.makedirs(sd, exist_ok=True)
        full = dict(inp['ref'], **inp['opts'])
        full.update(cleavage_rule='trypsin', cleavage_exception=None, max_length=25, max_variants_per_node=[-1],
                    additional_variants_per_misc=[-1], input_path=list(inp['files']), output_path=os.path.join(sd, 'full.fasta'))
        fakes = dict(mode='struct', cfg=dict(rule='trypsin', exc=''), gtf=open(inp['ref']['annotation_gtf']).read().splitlines(),
                     chroms=None, variants=[open(f).read() for f in inp['files']])
        for fi, f in enumerate(inp['files']):
            lines = open(f).read().splitlines(keepends=True)
            recs = [j for j, l in enumerate(lines) if not l.startswith('#')]
            if fi == 0 and tier == 'quick':
                recs = r.sample(recs, min(len(recs), 5))
            for j in recs:
                vid = lines[j].split('\t')[2]
                f2 = os.path.join(sd, f'less_{fi}_{j}.gvf')
                open(f2, 'w').write(''.join(l for jj, l in enumerate(lines) if jj != j))
                files2 = [x if k != fi else f2 for k, x in enumerate(inp['files'])]
                if len(recs) == 1 and all(l.startswith('#') for jj, l in enumerate(lines) if jj != j):
                    files2 = [x for k, x in enumerate(inp['files']) if k != fi]
                add(fakes, 'variant', dict(full, input_path=files2), full, scfg, added=vid)
    nj = env.NCPU
    res = jobs.run_jobs('run_cv_batch.py', [dict(jobs=jobs_[k::nj]) for k in range(nj)], timeout=3400)
    flat = [None] * len(jobs_)
    for k, rr in enumerate(res):
        if not rr.get('ok'):
            rep.machinery(f"worker failed: {rr.get('error')} {rr.get('stderr', '')[-300:]}"); return rep.finish()
        for j, x in enumerate(rr['results']):
            flat[k + j * nj] = x
    cases, info = [], []
    for k, m in enumerate(meta):
        xa, xb = flat[2 * k], flat[2 * k + 1]
        key = env.canon_hash([m['it'].get('gtf'), m['it'].get('variants'), m['kind'], {kk: str(v) for kk, v in m['b_args'].items()}])
        if not xa['ok'] or not xb['ok']:
            rep.case(1, key)
            rep.violation(f"crash:{key}", f"callVariant raised in a paired run ({m['kind']}): {xa['error'] or xb['error']}",
                          dict(kind=m['kind'], b_args={kk: str(v) for kk, v in m['b_args'].items()}))
            continue
        kind = m['kind']
        if kind == 'morefiles':
            # attribution: the extra peptides must name a record of the added file -> checked as subset only
            kind2 = 'restrict'
            cases.append(dict(kind='restrict', a=m['a'], b=m['a'], outA=fasta_case(xb['fasta']), outB=fasta_case(xa['fasta']), added='',
                              txs=[]))
        else:
            txs = [t['tx'] for t in m['it']['case']['txs']] if m['it'].get('case') else []
            cases.append(dict(kind=kind, a=m['a'], b=m['a'], outA=fasta_case(xa['fasta']), outB=fasta_case(xb['fasta']), added=m['added'],
                              txs=txs if kind in ('sect', 'w2f') else []))
        grew = len({s for _, s in xb['fasta']} - {s for _, s in xa['fasta']}) > 0
        info.append((key, m, grew, xa, xb))
    verdicts = tlc_cases('MonotoneTrace', cases, work, 'mono', rep)
    pending = []
    for (key, m, grew, xa, xb), vs in zip(info, verdicts):
        rep.traces(1); rep.case(1, key if grew else None)
        kinds = [re.match(r'"(\w+)"', v).group(1) for v in vs]
        if 'done' not in kinds:
            rep.machinery(f"no verdict for paired case {key}")
        for v, kd in zip(vs, kinds):
            if kd == 'done':
                continue
            peps = [''.join(re.findall(r'"(.)"', x)) for x in re.findall(r'<<(.*?)>>', v)]
            rule = m['it']['cfg']['rule']; exc = m['it']['cfg'].get('exc', '')
            what = (f"{m['kind']} relaxation: {kd} peptides {peps[:6]} (mode {m['it']['mode']}, rule {rule})")
            ro = dict(kind=m['kind'], verdict=kd, peptides=peps, a_args={kk: str(v2) for kk, v2 in m['a_args'].items()},
                      b_args={kk: str(v2) for kk, v2 in m['b_args'].items()}, gtf=m['it'].get('gtf'), chroms=m['it'].get('chroms'),
                      variants=m['it'].get('variants'))
            if kd == 'lost_sect_reference':
                rep.violation('sect_drops_reference_sec_truncation', what, ro)
            elif kd == 'lost_w2f_reference':
                rep.violation('w2f_drops_reference_w2f_image', what, ro)
            elif kd == 'unattributable' and m['kind'] == 'variant' and m['it'].get('case', {}).get('txs'):
                pending.append((key, m, xb, peps, what, ro))
            elif rule in LOOKBEHIND or exc:
                rep.violation(f"context:{rule}:{exc}", what, ro)
            else:
                rep.violation(f"mono:{key}:{kd}", what, ro)
    # an added peptide that does not name the added variant: is it the recorded C03 finding (the header omits a variant
    # upstream of the peptide)?  Decided by HeaderOracle on the entries of those peptides.
    if pending:
        hc = []
        for key, m, xb, peps, what, ro in pending:
            it = m['it']
            idx = {t['tx']['id']: k + 1 for k, t in enumerate(it['case']['txs'])}
            entries = []
            for h, sq in xb['fasta']:
                if sq not in peps:
                    continue
                for e in h.split(' '):
                    f = e.split('|')
                    toks = [y for y in f[1:-1] if not re.fullmatch(r'ORF\d+', y)]
                    entries.append(dict(tx=idx.get(f[0], 0), ids=[y for y in toks if not y.startswith(('SECT-', 'W2F-'))],
                                        sect=[it.get('secmap', {}).get(f[0], {}).get(y, -1) for y in toks if y.startswith('SECT-')],
                                        w2f=[int(y[4:]) for y in toks if y.startswith('W2F-')], seq=list(sq), label=e))
            hc.append(dict(txs=it['case']['txs'], cfg=it['case']['cfg'], entries=entries))
        hv = tlc_cases('HeaderOracle', hc, work, 'monohdr', rep)
        for (key, m, xb, peps, what, ro), c, vs in zip(pending, hc, hv):
            classes = {}
            for v in vs:
                for lab, cls in re.findall(r'<<"([^"]+)", "(\w+)">>', v):
                    classes[lab] = cls
            explained = c['entries'] and all(classes.get(e['label']) in ('omits_upstream', 'missing_frameshift') for e in c['entries'])
            if explained:
                rep.violation('unattributable_header_omits_upstream', what + ' - every entry of these peptides omits an upstream variant '
                              '(recorded C03 finding)', ro)
            else:
                rep.violation(f"mono:{key}:unattributable", what, ro)
    if info:
        m = info[0][1]
        rep.sample(dict(kind=m['kind'], stricter=len(info[0][3]['fasta']), relaxed=len(info[0][4]['fasta'])))
    return rep.finish()
