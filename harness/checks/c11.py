"""C11: reference model (spec/Annotation.tla, spec/PointerCache.tla)."""
import json, os, re
from vlib import env, tlc, report, jobs, refgen


def S(x):
    return list(x)


def want_model(t):
    return dict(strand=t['strand'], exons=t['exons'], cds=t['cds'], utr=t['utr'], sec=t['sec'], tags=t['tags'],
                coding=t['coding'], gene=t['gene'], chrom=t['chrom'], span=t['span'])


def annotation_level(rep, tier, work):
    r = env.rng('c11anno')
    n_refs = 120 if tier == 'quick' else 2500
    per = 10 if tier == 'quick' else 60
    refs, jl, cur = [], [], []
    for i in range(n_refs):
        ref = refgen.random_reference(r, n_genes=r.randrange(1, 4), coding_p=0.7, max_exons=r.choice([1, 2, 3, 4]),
                                      aa_len=(5, 16), nc_len=(12, 50), sec_p=0.3, nf_p=0.25, isoform_p=0.5,
                                      utr5=(0, 8), utr3=(0, 12), flank_p=0.5)
        paths = ref.write(os.path.join(work, f'a{i}'))
        genes, txs = ref.features()
        refs.append((ref, genes, txs))
        cur.append(dict(paths=paths, genes=genes, txs=txs))
        if len(cur) == per:
            jl.append(dict(jobs=cur)); cur = []
    if cur:
        jl.append(dict(jobs=cur))
    results = jobs.run_jobs('run_anno_case.py', jl, timeout=3000)
    flat = []
    for res in results:
        if not res.get('ok'):
            rep.machinery(f"annotation worker failed: {res.get('error')} {res.get('stderr', '')[-400:]}")
            return
        flat += res['results']
    cases, keep = [], []
    for (ref, genes, txs), res in zip(refs, flat):
        key = env.canon_hash([ref.chroms, genes, txs])
        if not res['ok']:
            rep.case(1, key)
            rep.violation(f"anno:{key}", f"reference model raised on a well-formed annotation: {res['error']}",
                          dict(gtf=ref.gtf_lines(), chroms=ref.chroms, tb=res.get('tb')))
            continue
        obs = res['obs']
        gidx = {g['id']: k + 1 for k, g in enumerate(genes)}
        # python-level structural comparisons that have no sequence content
        order = [t['id'] for t in txs]
        if obs['order_disk'] != order or obs['order_full'] != order:
            rep.violation(f"anno:{key}:order", f"transcript order differs from the annotation file order: "
                          f"{obs['order_disk']} / {obs['order_full']} vs {order}", dict(gtf=ref.gtf_lines()))
        for g, og in zip(genes, obs['genes']):
            want = dict(start=g['start'], end=g['end'], strand=g['strand'], txs=g['txs'])
            if og['model'] != want or og['model_full'] != want:
                rep.violation(f"anno:{key}:gene:{g['id']}", f"gene model {og['model']} / {og['model_full']} differs from GTF {want}",
                              dict(gtf=ref.gtf_lines()))
        chrom = list(ref.chroms.values())[0]
        case = dict(chrom=S(chrom),
                    genes=[dict(start=g['start'], end=g['end'], strand=g['strand']) for g in genes],
                    txs=[dict(strand=t['strand'], gene=gidx[t['gene']], exons=t['exons'], cds=t['cds'], utr=t['utr'],
                              sec=t['sec']) for t in txs],
                    obs=dict(genes=[dict(seq=o['seq'], g2gene=o['g2gene'], gene2g=o['gene2g']) for o in obs['genes']],
                             txs=[dict(seq=o['seq'], orf=o['orf'], sec=o['sec'], sec_end=o['sec_end'], tx2g=o['tx2g'],
                                       g2tx=o['g2tx'], gene2tx=o['gene2tx'], cdna=o['cdna'],
                                       model_full=json.dumps(o['model_full'], sort_keys=True),
                                       model_disk=json.dumps(o['model_disk'], sort_keys=True),
                                       model_rewritten=json.dumps(o['model_rewritten'], sort_keys=True),
                                       model_want=json.dumps(want_model(t), sort_keys=True))
                                  for o, t in zip(obs['txs'], txs)]))
        cases.append(case); keep.append((key, ref, txs))
    nshard = min(env.NCPU, max(1, len(cases) // 8))
    from concurrent.futures import ThreadPoolExecutor

    def run_shard(k):
        f = os.path.join(work, f'anno_{k}.json')
        json.dump(tlc.jsonable(cases[k::nshard]), open(f, 'w'))
        return tlc.run('AnnotationTrace', 'AnnotationTrace.cfg', workers=1, envvars=dict(CASES_FILE=f),
                       timeout=3400, heap='2g')
    with ThreadPoolExecutor(max_workers=nshard) as ex:
        rs = list(ex.map(run_shard, range(nshard)))
    for k, rr in enumerate(rs):
        rep.tlc(f'AnnotationTrace shard {k}', rr)
        if not rr.ok:
            rep.machinery(f"AnnotationTrace shard {k}: rc={rr.rc} {rr.errors[:2]} {rr.out[-500:]}")
            continue
        done, bad = set(), {}
        for s in rr.printed:
            m = re.match(r'<<"V", (\d+), "(\w+)">>$', s)
            if m:
                j = int(m.group(1))
                if m.group(2) == 'done':
                    done.add(j)
                else:
                    bad.setdefault(j, set()).add(m.group(2))
        if len(done) != len(cases[k::nshard]):
            rep.machinery(f"AnnotationTrace shard {k}: {len(done)} verdicts for {len(cases[k::nshard])} cases")
        for j in done:
            key, ref, txs = keep[(j - 1) * nshard + k]
            rep.case(1, key if any(len(t['exons']) > 1 for t in txs) else None)
            rep.traces(1)
            if j in bad:
                rep.violation(f"anno:{key}:{','.join(sorted(bad[j]))}",
                              f"reference model disagrees with Annotation.tla on clauses {sorted(bad[j])}",
                              dict(gtf=ref.gtf_lines(), chroms=ref.chroms, clauses=sorted(bad[j])))
    if cases:
        key, ref, txs = keep[0]
        rep.sample(dict(gtf=[l.split('\t')[2:8] for l in ref.gtf_lines()][:14], chrom_len=len(cases[0]['chrom']),
                        observed_orf=[t['orf'] for t in cases[0]['obs']['txs']]))
    rep.part('annotation', annotations=len(cases),
             positions=sum(len(o['g2tx']) + len(o['tx2g']) + len(o['gene2tx']) for c in cases for o in c['obs']['txs']))


def check_c11(tier):
    rep = report.Report('C11', tier)
    rep.cov['rule'] = ("random annotations (both strands, 1-4 exons, isoforms, UTRs, Sec, NF tags, genes wider than their "
                       "transcripts); every genomic / gene / transcript position of every gene and transcript is compared with "
                       "Annotation.tla; non-trivial = annotation has a multi-exon transcript; pointer cache: every access "
                       "sequence up to the bound generated by TLC and replayed")
    work = env.scratch('c11_')
    annotation_level(rep, tier, work)
    return rep.finish()
