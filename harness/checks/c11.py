"""C11: reference model (spec/Annotation.tla, spec/PointerCache.tla)."""
import json, os, re
from vlib import env, tlc, report, jobs, refgen


def S(x):
    return list(x)


def want_model(t):
    return dict(strand=t['strand'], exons=t['exons'], cds=t['cds'], utr=t['utr'], sec=t['sec'], tags=t['tags'],
                coding=t['coding'], gene=t['gene'], chrom=t['chrom'], span=t['span'])


def annotation_level(rep, tier, work):
    r = env.rng('c11anno')
    n_refs = 120 if tier == 'quick' else 2500
    per = 10 if tier == 'quick' else 60
    refs, jl, cur = [], [], []
    for i in range(n_refs):
        ref = refgen.random_reference(r, n_genes=r.randrange(1, 4), coding_p=0.7, max_exons=r.choice([1, 2, 3, 4]),
                                      aa_len=(5, 16), nc_len=(12, 50), sec_p=0.3, nf_p=0.25, isoform_p=0.5,
                                      utr5=(0, 8), utr3=(0, 12), flank_p=0.5)
        paths = ref.write(os.path.join(work, f'a{i}'))
        genes, txs = ref.features()
        refs.append((ref, genes, txs))
        cur.append(dict(paths=paths, genes=genes, txs=txs))
        if len(cur) == per:
            jl.append(dict(jobs=cur)); cur = []
    if cur:
        jl.append(dict(jobs=cur))
    results = jobs.run_jobs('run_anno_case.py', jl, timeout=3000)
    flat = []
    for res in results:
        if not res.get('ok'):
            rep.machinery(f"annotation worker failed: {res.get('error')} {res.get('stderr', '')[-400:]}")
            return
        flat += res['results']
    cases, keep = [], []
    for (ref, genes, txs), res in zip(refs, flat):
        key = env.canon_hash([ref.chroms, genes, txs])
        if not res['ok']:
            rep.case(1, key)
            rep.violation(f"anno:{key}", f"reference model raised on a well-formed annotation: {res['error']}",
                          dict(gtf=ref.gtf_lines(), chroms=ref.chroms, tb=res.get('tb')))
            continue
        obs = res['obs']
        gidx = {g['id']: k + 1 for k, g in enumerate(genes)}
        # python-level structural comparisons that have no sequence content
        order = [t['id'] for t in txs]
        if obs['order_disk'] != order or obs['order_full'] != order:
            rep.violation(f"anno:{key}:order", f"transcript order differs from the annotation file order: "
                          f"{obs['order_disk']} / {obs['order_full']} vs {order}", dict(gtf=ref.gtf_lines()))
        for g, og in zip(genes, obs['genes']):
            want = dict(start=g['start'], end=g['end'], strand=g['strand'], txs=g['txs'])
            if og['model'] != want or og['model_full'] != want:
                rep.violation(f"anno:{key}:gene:{g['id']}", f"gene model {og['model']} / {og['model_full']} differs from GTF {want}",
                              dict(gtf=ref.gtf_lines()))
        chrom = list(ref.chroms.values())[0]
        case = dict(chrom=S(chrom),
                    genes=[dict(start=g['start'], end=g['end'], strand=g['strand']) for g in genes],
                    txs=[dict(strand=t['strand'], gene=gidx[t['gene']], exons=t['exons'], cds=t['cds'], utr=t['utr'],
                              sec=t['sec']) for t in txs],
                    obs=dict(genes=[dict(seq=o['seq'], g2gene=o['g2gene'], gene2g=o['gene2g']) for o in obs['genes']],
                             txs=[dict(seq=o['seq'], orf=o['orf'], sec=o['sec'], sec_end=o['sec_end'], tx2g=o['tx2g'],
                                       g2tx=o['g2tx'], gene2tx=o['gene2tx'], cdna=o['cdna'],
                                       model_full=json.dumps(o['model_full'], sort_keys=True),
                                       model_disk=json.dumps(o['model_disk'], sort_keys=True),
                                       model_rewritten=json.dumps(o['model_rewritten'], sort_keys=True),
                                       model_want=json.dumps(want_model(t), sort_keys=True))
                                  for o, t in zip(obs['txs'], txs)]))
        cases.append(case); keep.append((key, ref, txs))
    nshard = min(env.NCPU, max(1, len(cases) // 8))
    from concurrent.futures import ThreadPoolExecutor

    def run_shard(k):
        f = os.path.join(work, f'anno_{k}.json')
        json.dump(tlc.jsonable(cases[k::nshard]), open(f, 'w'))
        return tlc.run('AnnotationTrace', 'AnnotationTrace.cfg', workers=1, envvars=dict(CASES_FILE=f),
                       timeout=3400, heap='2g')
    with ThreadPoolExecutor(max_workers=nshard) as ex:
        rs = list(ex.map(run_shard, range(nshard)))
    for k, rr in enumerate(rs):
        rep.tlc(f'AnnotationTrace shard {k}', rr)
        if not rr.ok:
            rep.machinery(f"AnnotationTrace shard {k}: rc={rr.rc} {rr.errors[:2]} {rr.out[-500:]}")
            continue
        done, bad = set(), {}
        for s in rr.printed:
            m = re.match(r'<<"V", (\d+), "(\w+)">>$', s)
            if m:
                j = int(m.group(1))
                if m.group(2) == 'done':
                    done.add(j)
                else:
                    bad.setdefault(j, set()).add(m.group(2))
        if len(done) != len(cases[k::nshard]):
            rep.machinery(f"AnnotationTrace shard {k}: {len(done)} verdicts for {len(cases[k::nshard])} cases")
        for j in done:
            key, ref, txs = keep[(j - 1) * nshard + k]
            rep.case(1, key if any(len(t['exons']) > 1 for t in txs) else None)
            rep.traces(1)
            if j in bad:
                rep.violation(f"anno:{key}:{','.join(sorted(bad[j]))}",
                              f"reference model disagrees with Annotation.tla on clauses {sorted(bad[j])}",
                              dict(gtf=ref.gtf_lines(), chroms=ref.chroms, clauses=sorted(bad[j])))
    if cases:
        key, ref, txs = keep[0]
        rep.sample(dict(gtf=[l.split('\t')[2:8] for l in ref.gtf_lines()][:14], chrom_len=len(cases[0]['chrom']),
                        observed_orf=[t['orf'] for t in cases[0]['obs']['txs']]))
    rep.part('annotation', annotations=len(cases),
             positions=sum(len(o['g2tx']) + len(o['tx2g']) + len(o['gene2tx']) for c in cases for o in c['obs']['txs']))


def cache_level(rep, tier, work):
    r = env.rng('c11cache')
    b = refgen.Builder(r)
    for k in range(14):
        if k % 3 == 2:
            b.add_gene(refgen.rand_noncoding(r, 30), r.choice([1, -1]), r.randrange(1, 3), False)
        else:
            seq, cs, ce, secs, prot = refgen.make_coding_tx_seq(r, 8, 3, 6)
            b.add_gene(seq, r.choice([1, -1]), r.randrange(1, 4), True, cs, ce, secs, (), prot)
    ref = b.finish()
    paths = ref.write(os.path.join(work, 'cache_ref'))
    txids = [t for t in ref.txs]
    gids = [g for g in ref.genes]
    runs = [('MC_PointerCache.cfg', {}, 2), ('MC_PointerCache_s3.cfg', {}, 3)]
    if tier == 'quick':
        runs.append(('MC_PointerCache_real.cfg', dict(simulate='num=150', depth=41, seed=env.seed() + 5, workers=1), 10))
    else:
        runs.append(('MC_PointerCache_real.cfg', dict(simulate='num=3000', depth=41, seed=env.seed() + 5, workers=1), 10))
    jl, metas = [], []
    for cfg, kw, size in runs:
        rr = tlc.run('MC_PointerCache', cfg, timeout=1800, **({'workers': 8} | kw))
        rep.tlc(cfg, rr)
        if rr.violation:
            rep.violation(f'model:{cfg}:{rr.violation}', f"PointerCache model violates {rr.violation}", dict(tail=rr.out[-1500:]))
            continue
        hs = []
        for s in rr.printed:
            m = re.match(r'<<"H", "(.*)">>$', s)
            if m:
                hs.append(json.loads(m.group(1).encode().decode('unicode_escape')))
        if not hs:
            rep.machinery(f"no histories from {cfg}: rc={rr.rc} {rr.errors[:2]} {rr.out[-300:]}")
            continue
        keys = sorted({st['key'] for h in hs for st in h})
        km_tx = {f'k{i + 1}': txids[i] for i in range(14)}
        km_g = {f'k{i + 1}': gids[i] for i in range(14)}
        km_tx.update(zz='ENST99999.1', yy='ENST88888.1'); km_g.update(zz='ENSG99999.1', yy='ENSG88888.1')
        nchunk = 8
        for c in range(nchunk):
            part = hs[c::nchunk]
            if part:
                jl.append(dict(paths=paths, size=size, keymap_tx=km_tx, keymap_gene=km_g, histories=part))
                metas.append((cfg, size, part))
    results = jobs.run_jobs('run_cache_case.py', jl, timeout=3000)
    st_ok = st_n = 0
    for (cfg, size, part), res in zip(metas, results):
        if not res.get('ok'):
            rep.machinery(f"cache worker failed: {res.get('error')} {res.get('stderr', '')[-400:]}")
            continue
        for h in part:
            rep.case(2, ('cache', size, tuple(s['key'] for s in h)) if any(s['key'] in ('zz', 'yy') for s in h) or len({s['key'] for s in h}) > size else None)
            rep.traces(2)
        st_ok += res['state_ok']; st_n += res['state_n']
        for b_ in res['bad']:
            h = part[b_['history']]
            keys = [s['key'] for s in h]
            rep.violation(f"cache:{b_['dict_kind']}:size{size}:{','.join(keys[:b_['step'] + 1])}",
                          f"{b_['dict_kind']} pointer dict (cache size {size}) after lookups {keys[:b_['step']]}: lookup of "
                          f"{b_['key']} gave {b_['got']}, spec {b_['want']}", dict(size=size, history=h, bad=b_))
    rep.part('pointer_cache', internal_state_matches=st_ok, internal_state_compared=st_n,
             note="agreement of _cache/_cached_keys with the spec's FIFO state is informational, not a violation")
    if metas:
        rep.sample(dict(cache_size=metas[0][1], history=[(s['key'], s['result']) for s in metas[0][2][3]]))


def check_c11(tier):
    rep = report.Report('C11', tier)
    rep.cov['rule'] = ("random annotations (both strands, 1-4 exons, isoforms, UTRs, Sec, NF tags, genes wider than their "
                       "transcripts); every genomic / gene / transcript position of every gene and transcript is compared with "
                       "Annotation.tla; non-trivial = annotation has a multi-exon transcript; pointer cache: every access "
                       "sequence up to the bound generated by TLC and replayed")
    work = env.scratch('c11_')
    annotation_level(rep, tier, work)
    cache_level(rep, tier, work)
    return rep.finish()
