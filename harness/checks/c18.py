"""C18: splitFasta / summarizeFasta / mergeFasta / encodeFasta (spec/FastaOps.tla, PoolOpsTrace.tla)."""
import json, os, re
from vlib import env, tlc, report, jobs, refgen, cvgen, mpg
from checks.cv import tlc_cases

SRC = [('gSNP', 'parseVEP'), ('gINDEL', 'parseVEP'), ('RNAEdit', 'parseREDItools'), ('Fusion', 'parseSTARFusion'),
       ('circRNA', 'parseCIRCexplorer'), ('AltSplice', 'parseRMATS')]
HEAD = """##fileformat=VCFv4.2
##mopepgen_version=1.4.6
##parser={parser}
##reference_index=
##genome_fasta=
##annotation_gtf=
##source={source}
##CHROM=<Description='Gene ID'>
#CHROM\tPOS\tID\tREF\tALT\tQUAL\tFILTER\tINFO
"""
AAS = 'ACDEFGHIKLMNPQRSTVWY'


class World:
    """A small reference + GVF files + a palette of header entries."""

    def __init__(self, r, d):
        self.r = r
        self.ref = refgen.random_reference(r, n_genes=r.randrange(3, 6), coding_p=0.6, max_exons=3, aa_len=(10, 16), nc_len=(30, 60),
                                           isoform_p=0.6)
        self.paths = self.ref.write(d)
        self.txs = list(self.ref.txs.values())
        self.recs = {s: [] for s, _ in SRC}     # source -> list of (gene, id, line)
        self.d = d
        used = r.sample([s for s, _ in SRC], r.randrange(2, len(SRC) + 1))
        self.used = [s for s, _ in SRC if s in used]
        r.shuffle(self.used)
        k = 0
        for t in self.txs:
            for s in self.used:
                for _ in range(r.randrange(0, 3)):
                    k += 1
                    self.recs[s].append(self.record(s, t, k))
        self.recs = {s: [x for x in v if x] for s, v in self.recs.items()}
        self.gvf_files = []
        for s in self.used:
            p = os.path.join(d, f'{s}.gvf')
            with open(p, 'w') as f:
                f.write(HEAD.format(parser=dict(SRC)[s], source=s))
                for gene, vid, line in self.recs[s]:
                    f.write(line + '\n')
            self.gvf_files.append(p)

    def record(self, s, t, k):
        r = self.r
        g = t.gene
        pos = 5 + k
        if s in ('gSNP', 'RNAEdit'):
            vid = f"{'SNV' if s == 'gSNP' else 'RES'}-{pos}-A-G"
            return (g, vid, f"{g}\t{pos}\t{vid}\tA\tG\t.\t.\tTRANSCRIPT_ID={t.id};GENE_SYMBOL=S;GENOMIC_POSITION=chr1:{pos}")
        if s == 'gINDEL':
            vid = f"INDEL-{pos}-A-AT"
            return (g, vid, f"{g}\t{pos}\t{vid}\tA\tAT\t.\t.\tTRANSCRIPT_ID={t.id};GENE_SYMBOL=S;GENOMIC_POSITION=chr1:{pos}")
        if s == 'Fusion':
            same = [x for x in self.txs if x.gene == g and x.id != t.id]
            other = [x for x in self.txs if x.gene != g]
            t2 = r.choice(same) if same and r.random() < 0.5 else r.choice(other or same or [None])   # intragenic fusions too
            if t2 is None:
                return None
            vid = f"FUSION-{t.id}:{pos}-{t2.id}:{pos + 3}"
            return (g, vid, f"{g}\t{pos}\t{vid}\tA\t<FUSION>\t.\t.\tTRANSCRIPT_ID={t.id};GENE_SYMBOL=S;GENOMIC_POSITION=chr1:{pos};"
                    f"ACCEPTER_GENE_ID={t2.gene};ACCEPTER_TRANSCRIPT_ID={t2.id};ACCEPTER_SYMBOL=S2;ACCEPTER_POSITION={pos + 3};"
                    f"ACCEPTER_GENOMIC_POSITION=chr1:{pos + 3}")
        if s == 'circRNA':
            vid = f"CIRC-{t.id}-{pos}:{pos + 20}"
            return (g, vid, f"{g}\t{pos}\t{vid}\t.\t.\t.\t.\tOFFSET=0;LENGTH=20;INTRON=;TRANSCRIPT_ID={t.id};GENE_SYMBOL=S;GENOMIC_POSITION=chr1:{pos}:{pos + 20}")
        if s == 'AltSplice':
            vid = f"SE-{pos}"
            return (g, vid, f"{g}\t{pos}\t{vid}\tA\t<DEL>\t.\t.\tTRANSCRIPT_ID={t.id};START={pos};END={pos + 9};GENE_SYMBOL=S;GENOMIC_POSITION=chr1:{pos}")

    def small(self, gene, n):
        pool = [(g, v) for s in ('gSNP', 'gINDEL', 'RNAEdit', 'AltSplice') if s in self.used for g, v, _ in self.recs[s] if g == gene]
        self.r.shuffle(pool)
        if sum(1 for g, v in pool[:n] if v.startswith('SE-')) > 1:
            pool = [x for x in pool if not x[1].startswith('SE-')]
        return pool[:n]

    def entry(self, idx):
        """-> (label, items) ; items as [kind, gene, id]"""
        r = self.r
        t = r.choice(self.txs)
        kind = r.choice(['base', 'base', 'fusion', 'circ', 'orf', 'orfvar', 'sect', 'w2fvar'])
        if kind == 'fusion' and self.recs.get('Fusion'):
            g, fid, _ = r.choice(self.recs['Fusion'])
            t1 = fid.split('-')[1].split(':')[0]; t2 = fid.split('-')[2].split(':')[0]
            g2 = self.ref.txs[t2].gene
            v1 = [x for x in self.small(g, r.randrange(0, 2)) if not x[1].startswith('SE-')]
            v2 = [x for x in self.small(g2, r.randrange(0, 3)) if not x[1].startswith('SE-') and x not in v1]
            label = '|'.join([fid] + [f'1-{v}' for _, v in v1] + [f'2-{v}' for _, v in v2] + [str(idx)])
            return label, [['var', g, fid]] + [['var', a, b] for a, b in v1] + [['var', a, b] for a, b in v2]
        if kind == 'circ' and self.recs.get('circRNA'):
            g, cid, _ = r.choice(self.recs['circRNA'])
            vs = [x for x in self.small(g, r.randrange(0, 2)) if not x[1].startswith('SE-')]
            label = '|'.join([cid] + [v for _, v in vs] + [str(idx)])
            return label, [['var', g, cid]] + [['var', a, b] for a, b in vs]
        if kind == 'orf' and not t.coding:
            w = r.random() < 0.3
            label = '|'.join([t.id, t.gene] + (['W2F-3'] if w else []) + ['ORF1', str(idx)])
            return label, ([['w2f', '', '']] if w else []) + [['orf', '', '']]
        vs = self.small(t.gene, r.randrange(1, 3))
        if kind == 'sect' and t.coding:
            label = f'{t.id}|SECT-30|{idx}'
            return label, [['sect', '', '']]
        if not vs:
            return None
        if kind == 'orfvar' and not t.coding:
            label = '|'.join([t.id] + [v for _, v in vs] + ['ORF2', str(idx)])
            return label, [['var', a, b] for a, b in vs] + [['orf', '', '']]
        if kind == 'w2fvar':
            label = '|'.join([t.id] + [v for _, v in vs] + ['W2F-2', str(idx)])
            return label, [['var', a, b] for a, b in vs] + [['w2f', '', '']]
        label = '|'.join([t.id] + [v for _, v in vs] + [str(idx)])
        return label, [['var', a, b] for a, b in vs]

    def pool(self, n):
        r = self.r
        seqs, out = set(), []
        idx = 0
        while len(out) < n:
            s = ''.join(r.choice(AAS) for _ in range(r.randrange(7, 15)))
            if s in seqs:
                continue
            entries = []
            for _ in range(r.randrange(1, 4)):
                idx += 1
                e = self.entry(idx)
                if e and e[0] not in [x[0] for x in entries]:
                    entries.append(e)
            if not entries:
                continue
            seqs.add(s)
            out.append(dict(seq=s, entries=[dict(label=l, items=i) for l, i in entries]))
        return out

    def options(self):
        r = self.r
        group = {}
        srcs = list(self.used) + ['NovelORF', 'SECT', 'CodonReassign']
        if r.random() < 0.4 and 'gSNP' in self.used and 'gINDEL' in self.used:
            group = {'gSNP': 'Germline', 'gINDEL': 'Germline'}
        if r.random() < 0.2:
            group['SECT'] = 'AltTrans'; group['CodonReassign'] = 'AltTrans'
        # a group mixing a structural source (fusion / circRNA / alternative splicing) with a small-variant source, e.g.
        # "Somatic:sSNV,sFusion"
        big = [x for x in ('Fusion', 'circRNA', 'AltSplice') if x in self.used and x not in group]
        small = [x for x in ('gSNP', 'gINDEL', 'RNAEdit') if x in self.used and x not in group]
        if r.random() < 0.35 and big and small:
            group[r.choice(big)] = 'Mixed'; group[r.choice(small)] = 'Mixed'
        names = []
        for s in srcs:
            g = group.get(s, s)
            if g not in names:
                names.append(g)
        order = []
        if r.random() < 0.7:
            sel = r.sample(names, r.randrange(1, len(names) + 1))
            for s in sel:
                order.append([s])
            if r.random() < 0.45 and len(sel) >= 2:
                a, b = r.sample(sel, 2)
                # a combination of two sources with its own priority level; half of the time in the first position
                order.insert(0 if r.random() < 0.5 else r.randrange(0, len(order) + 1), [a, b])
        additional = []
        if r.random() < 0.55 and len(names) >= 2:
            # several additional sets (single sources and pairs) in random order: more than one can be a subset of a
            # peptide's source set, the first one listed must win
            for _ in range(r.randrange(1, 4)):
                a = sorted(r.sample(names, r.choice([1, 2, 2])))
                if a not in additional:
                    additional.append(a)
        return dict(order=order, group=group, maxGroups=r.choice([1, 1, 2, 3]), additional=additional)


def write_pool(path, pool):
    mpg.write_fasta(path, [(' '.join(e['label'] for e in p['entries']), p['seq']) for p in pool])


def cli_opts(o):
    order = ','.join('-'.join(it) for it in o['order']) or None
    groups = {}
    for k, v in o['group'].items():
        groups.setdefault(v, []).append(k)
    return dict(order_source=order, group_source=[f"{g}:{','.join(ms)}" for g, ms in groups.items()] or None)


def spec_entries(p):
    return dict(seq=p['seq'], entries=p['entries'])


def check_c18(tier):
    rep = report.Report('C18', tier)
    rep.cov['rule'] = ("random pools (7-40 peptides, 1-3 header entries each drawn from base / fusion / circRNA / novel-ORF / SECT / W2F "
                       "labels built from the records of 2-6 GVF sources) x order/group/max-groups/additional-split options; the outputs "
                       "of the real splitFasta, summarizeFasta, mergeFasta, encodeFasta are checked by TLC against FastaOps; "
                       "non-trivial = pool with multi-entry peptides; distinct = distinct (pool, options)")
    rep.assumptions += ["wildcard items ('*', '+') of --order-source are not generated", "source names contain no '-'"]
    work = env.scratch('c18_')
    r = env.rng('c18')
    n = 60 if tier == 'quick' else 1500
    jl, meta = [], []
    for i in range(n):
        d = os.path.join(work, f'w{i}'); os.makedirs(d, exist_ok=True)
        w = World(r, d)
        pool = w.pool(r.randrange(7, 40))
        o = w.options()
        vp = os.path.join(d, 'pool.fasta'); write_pool(vp, pool)
        base = dict(gvf=w.gvf_files, variant_peptides=vp, novel_orf_peptides=None, alt_translation_peptides=None,
                    annotation_gtf=w.paths['annotation_gtf'], proteome_fasta=w.paths['proteome_fasta'], index_dir=None,
                    genome_fasta=None)
        co = cli_opts(o)
        a = dict(base, output_prefix=os.path.join(d, 'split', 'db'), max_source_groups=o['maxGroups'],
                 additional_split=['-'.join(x) for x in o['additional']] or None, **co)
        jl.append(dict(op='split', args=a))
        a2 = dict(base, output_prefix=os.path.join(d, 'splitall', 'db'), max_source_groups=20, additional_split=None, **co)
        jl.append(dict(op='split', args=a2))
        a3 = dict(base, output_path=os.path.join(d, 'summary.txt'), output_image=None, ignore_missing_source=False,
                  cleavage_rule='trypsin', plot_normal_scale=False, plot_log_scale=False, **co)
        jl.append(dict(op='summarize', args=a3))
        # merge: split the pool into 2-3 overlapping parts, merge them back
        parts = [[], [], []]
        for p in pool:
            ks = r.sample([0, 1, 2], r.randrange(1, 3))
            for k in ks:
                ents = p['entries'] if len(ks) == 1 else r.sample(p['entries'], r.randrange(1, len(p['entries']) + 1))
                parts[k].append(dict(seq=p['seq'], entries=ents))
        parts = [x for x in parts if x]
        pf = []
        for k, part in enumerate(parts):
            f = os.path.join(d, f'part{k}.fasta'); write_pool(f, part); pf.append(f)
        jl.append(dict(op='merge', args=dict(input_path=pf, output_path=os.path.join(d, 'merged.fasta'), dedup_header=False)))
        # encode: targets + decoys
        pos = r.choice(['prefix', 'suffix']); ds = r.choice(['DECOY_', 'rev_', '_XX'])
        recs = []
        for p in pool[:12]:
            h = ' '.join(e['label'] for e in p['entries'])
            recs.append((h, p['seq'], False))
            if r.random() < 0.6:
                recs.append(((ds + h) if pos == 'prefix' else (h + ds), p['seq'][::-1], True))
        ef = os.path.join(d, 'enc_in.fasta'); mpg.write_fasta(ef, [(h, s) for h, s, _ in recs])
        jl.append(dict(op='encode', args=dict(input_path=ef, output_path=os.path.join(d, 'enc.fasta'), decoy_string=ds,
                                              decoy_string_position=pos)))
        meta.append(dict(w=w, pool=pool, o=o, parts=parts, recs=recs, ds=ds, pos=pos))
    nj = env.NCPU
    res = jobs.run_jobs('run_pool_ops.py', [dict(jobs=jl[k::nj]) for k in range(nj)], timeout=3000)
    flat = [None] * len(jl)
    for k, rr in enumerate(res):
        if not rr.get('ok'):
            rep.machinery(f"worker failed: {rr.get('error')} {rr.get('stderr', '')[-300:]}"); return rep.finish()
        for j, x in enumerate(rr['results']):
            flat[k + j * nj] = x
    cases, info = [], []

    def dbkey(name):
        if name == 'Remaining':
            return 'remaining', []
        parts_ = name.split('-')
        if parts_[-1] == 'additional':
            return 'additional', parts_[:-1]
        return 'sources', parts_

    for i, m in enumerate(meta):
        xs, xa, xsum, xm, xe = flat[5 * i:5 * i + 5]
        gv = [dict(source=s, recs=[[g, v] for g, v, _ in m['w'].recs[s]]) for s in m['w'].used]
        key = env.canon_hash([m['pool'], m['o'], gv])
        ctx = dict(pool=m['pool'], options=m['o'], gvf_sources=m['w'].used)
        for nm, x in (('splitFasta', xs), ('splitFasta(all groups)', xa), ('summarizeFasta', xsum), ('mergeFasta', xm), ('encodeFasta', xe)):
            if not x['ok']:
                rep.violation(f"crash:{nm}:{key}", f"{nm} raised {x['error']}", dict(ctx, tb=x.get('tb')))
        specpool = [spec_entries(p) for p in m['pool']]
        if xs['ok']:
            outs = []
            for name, recs in xs['outputs'].items():
                kd, names = dbkey(name)
                outs.append(dict(kind=kd, names=names, peptides=[dict(seq=s, labels=h.split(' ')) for h, s in recs]))
            cases.append(dict(op='split', pool=specpool, gvfs=gv, opts=m['o'], outputs=outs)); info.append((key, 'split', ctx))
        if xsum['ok'] and xa['ok']:
            rows = []
            for line in xsum['table'].splitlines()[1:]:
                f = line.split('\t')
                rows.append(dict(names=f[0].split('-'), total=int(f[1])))
            sizes = [dict(names=dbkey(nm)[1], size=len(recs)) for nm, recs in xa['outputs'].items()]
            o2 = dict(m['o'], maxGroups=20, additional=[])
            cases.append(dict(op='summarize', pool=specpool, gvfs=gv, opts=o2, rows=rows, splitSizes=sizes, complete=True))
            info.append((key, 'summarize', ctx))
        if xm['ok']:
            cases.append(dict(op='merge', inputs=[[spec_entries(p) for p in part] for part in m['parts']],
                              merged=[dict(seq=s, labels=h.split(' ')) for h, s in xm['fasta']]))
            info.append((key, 'merge', ctx))
        if xe['ok']:
            enc = []
            for h, s in xe['fasta']:
                dec = h.startswith(m['ds']) if m['pos'] == 'prefix' else h.endswith(m['ds'])
                ident = (h[len(m['ds']):] if m['pos'] == 'prefix' else h[:-len(m['ds'])]) if dec else h
                enc.append(dict(id=ident, seq=s, decoy=dec))
            orig = []
            for h, s, dec in m['recs']:
                real = (h[len(m['ds']):] if m['pos'] == 'prefix' else h[:-len(m['ds'])]) if dec else h
                orig.append(dict(header=real, seq=s, decoy=dec))
            cases.append(dict(op='encode', original=orig, encoded=enc, dict=[dict(id=a, header=b) for a, b in xe['dict']]))
            info.append((key, 'encode', ctx))
    verdicts = tlc_cases('PoolOpsTrace', cases, work, 'poolops', rep)
    for (key, op, ctx), vs in zip(info, verdicts):
        vs = [v.strip('"') for v in vs]
        rep.traces(1)
        rep.case(1, (key, op) if any(len(p['entries']) > 1 for p in ctx['pool']) else None)
        if 'done' not in vs:
            rep.machinery(f"no verdict for {op} case {key}")
        bad = sorted(v for v in vs if v != 'done')
        if bad:
            rep.violation(f"{op}:{key}:{','.join(bad)}", f"{op}Fasta violates {bad} (options {ctx['options']})", ctx)
    if meta:
        rep.sample(dict(options=meta[0]['o'], pool=[(p['seq'], [e['label'] for e in p['entries']]) for p in meta[0]['pool'][:4]],
                        split_outputs={k: len(v) for k, v in (flat[0].get('outputs') or {}).items()}))
    return rep.finish()
