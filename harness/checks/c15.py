"""C15: fusion parsers through their real command lines + callVariant on the emitted GVF (spec/Parsers.tla, FusionTrace.tla)."""
import json, os, re
from vlib import env, tlc, report, jobs, refgen, cvgen
from checks.cv import tlc_cases
from checks.c14 import tx_spec

TOOLS = ('star', 'fc', 'arriba')
CFG = dict(rule='trypsin', exc='', misc=1, min_len=3, max_len=22, min_mw='0.00005')


def breakpoints(r, t, g, n):
    """interesting 0-based genomic positions inside the gene: exon ends/starts, inside exons, intronic"""
    pts = set()
    for s, e in t['exons']:
        pts.update([s, s + 1, e - 1, e - 2, (s + e) // 2])
    for k in range(len(t['exons']) - 1):
        a, b = t['exons'][k][1], t['exons'][k + 1][0]
        pts.update([a, b - 1, (a + b) // 2])
    pts = [p for p in pts if g['start'] <= p < g['end']]
    r.shuffle(pts)
    # always one breakpoint that keeps exactly one intronic base (donor side on +, acceptor side on -)
    one_in = [t['exons'][k][1] for k in range(len(t['exons']) - 1) if t['exons'][k + 1][0] - t['exons'][k][1] >= 2]
    if one_in:
        x = r.choice(one_in)
        pts = [x] + [p for p in pts if p != x]
    # and, for a coding transcript, one breakpoint on a base of the start codon (the donor then keeps one, two or all three of
    # its bases)
    forced = pts[:1] if one_in else []
    if t.get('cds'):
        c0 = t['cds'][0][0] if t['strand'] == 1 else t['cds'][-1][1] - 1
        x = c0 + t['strand'] * r.randrange(0, 3)
        if g['start'] <= x < g['end']:
            forced.append(x)
    # and, for a transcript of three or more exons, one breakpoint deep inside the intron that has two or more exons upstream of
    # it in transcript order (the retained stretch must start at the nearest upstream exon, not at the first one)
    if len(t['exons']) >= 3:
        k = len(t['exons']) - 2 if t['strand'] == 1 else 0
        a, b = t['exons'][k][1], t['exons'][k + 1][0]
        if b - a >= 3:
            forced.append(r.randrange(a + 1, b - 1))
    rest = [p for p in pts if p not in forced]
    if n >= 4:
        return (forced + rest)[:max(n, len(forced) + 1)]
    # acceptor side (two points): one of the forced ones and one other
    return ([r.choice(forced)] if forced else []) + rest[:n - (1 if forced else 0)]


def gene_vars(small, gene, tx):
    """the small variants of a gene in gene coordinates; own = the record names transcript tx (one entry per distinct variant)"""
    out = {}
    for v in small:
        if v['gene'] != gene:
            continue
        k = (v['gstart'], v['gend'], v['ref'], v['alt'])
        e = out.setdefault(k, dict(gs=v['gstart'], ge=v['gend'], ref=list(v['ref']), alt=list(v['alt']), id=v['id'], own=False))
        e['own'] = e['own'] or v['tx'] == tx
    return [out[k] for k in sorted(out)]


def rows(tool, cases, genes):
    L = []
    gname = {g['id']: g['name'] for g in genes}
    if tool == 'star':
        L.append('#FusionName\tJunctionReadCount\tSpanningFragCount\test_J\test_S\tSpliceType\tLeftGene\tLeftBreakpoint\tRightGene\t'
                 'RightBreakpoint\tJunctionReads\tSpanningFrags\tLargeAnchorSupport\tFFPM\tLeftBreakDinuc\tLeftBreakEntropy\t'
                 'RightBreakDinuc\tRightBreakEntropy\tannots')
        for c in cases:
            sd = '+' if c['gd']['strand'] == 1 else '-'; sa = '+' if c['ga']['strand'] == 1 else '-'
            L.append('\t'.join([f"{c['gdn']}--{c['gan']}", '4', '5', f"{c['est_j']:.2f}", '3.86', 'ONLY_REF_SPLICE',
                                f"{c['gdn']}^{c['gdid']}", f"chr1:{c['lb'] + 1}:{sd}", f"{c['gan']}^{c['gaid']}",
                                f"chr1:{c['rb'] + 1}:{sa}", 'r1,r2', 'f1,f2', 'YES_LDAS', '0.1045', 'GT', '1.9086', 'AG', '1.7232',
                                '["INTRACHROMOSOMAL[chr1:0.1Mb]"]']))
    elif tool == 'fc':
        L.append('Gene_1_symbol\tGene_2_symbol\tFusion_description\tCounts_of_common_mapping_reads\tSpanning_pairs\t'
                 'Spanning_unique_reads\tLongest_anchor_found\tFusion_finding_method\tFusion_point_for_gene_1\tFusion_point_for_gene_2\t'
                 'Gene_1_id\tGene_2_id\tExon_1_id\tExon_2_id\tFusion_sequence\tPredicted_effect')
        for c in cases:
            sd = '+' if c['gd']['strand'] == 1 else '-'; sa = '+' if c['ga']['strand'] == 1 else '-'
            gid1 = c['gdid'].split('.')[0] if c['unversioned'] else c['gdid']
            gid2 = c['gaid'].split('.')[0] if c['unversioned'] else c['gaid']
            L.append('\t'.join([c['gdn'], c['gan'], 'known', str(c['common']), '12', str(c['unique']), '21', 'BOWTIE+STAR',
                                f"chr1:{c['lb'] + 1}:{sd}", f"chr1:{c['rb'] + 1}:{sa}", gid1, gid2, '', '', 'AAAA*CCCC', 'in-frame']))
    else:
        L.append('#gene1\tgene2\tstrand1(gene/fusion)\tstrand2(gene/fusion)\tbreakpoint1\tbreakpoint2\tsite1\tsite2\ttype\tsplit_reads1\t'
                 'split_reads2\tdiscordant_mates\tcoverage1\tcoverage2\tconfidence\treading_frame\ttags\tretained_protein_domains\t'
                 'closest_genomic_breakpoint1\tclosest_genomic_breakpoint2\tgene_id1\tgene_id2\ttranscript_id1\ttranscript_id2\t'
                 'direction1\tdirection2\tfilters\tfusion_transcript\tpeptide_sequence\tread_identifiers')
        for c in cases:
            sd = '+' if c['gd']['strand'] == 1 else '-'; sa = '+' if c['ga']['strand'] == 1 else '-'
            L.append('\t'.join([c['gdn'], c['gan'], f'{sd}/{sd}', f'{sa}/{sa}', f"chr1:{c['lb'] + 1}", f"chr1:{c['rb'] + 1}",
                                'CDS/splice-site', 'intron', 'deletion', str(c['sr1']), str(c['sr2']), '19', '191', '92', c['conf'],
                                'out-of-frame', '.', '.', '.', '.', c['gdid'], c['gaid'], '.', '.',
                                'downstream' if sd == '+' else 'upstream', 'upstream' if sa == '+' else 'downstream',
                                'duplicates(3)', 'AAAA|CCCC', '.', 'r1,r2']))
    return '\n'.join(L) + '\n'


def enough(tool, c, th):
    if tool == 'star':
        return c['est_j'] >= th['min_est_j']
    if tool == 'fc':
        return c['common'] <= th['max_common_mapping'] and c['unique'] >= th['min_spanning_unique']
    lv = {'low': 0, 'medium': 1, 'high': 2}
    return c['sr1'] >= th['min_split_read1'] and c['sr2'] >= th['min_split_read2'] and lv[c['conf']] >= lv[th['min_confidence']]


def check_c15(tier, rep=None, only_complete=False, only=None):
    """only: None (C15: every clause but completeness), 'fusion_peptides_complete' (reported by C01) or
    'peptides_from_fused_sequence' (fusion soundness, reported by C02 as well as by C15)"""
    only = only or ('fusion_peptides_complete' if only_complete else None)
    only_complete = bool(only)
    rep = rep or report.Report('C15', tier)
    rule_before = rep.cov['rule']
    rep.cov['rule'] = ("random annotations with 2-3 genes (both strands, multi-exon, isoforms) x ordered gene pairs x breakpoints at exon "
                       "ends/starts, inside exons and in introns x evidence values around each tool's thresholds x unknown gene ids; the "
                       "real command lines parseSTARFusion / parseFusionCatcher / parseArriba are run, the emitted GVF is read, and "
                       "callVariant is run on the STAR-Fusion GVF; TLC checks one record per eligible transcript pair at the spec's "
                       "positions, skipping rules, and that every fusion peptide is a digestion product of the spec's fused sequence; "
                       "non-trivial = record emitted")
    if only_complete:
        rep.cov['rule'] = rule_before + f' | fusion backbones: the C15 campaign (with small variants on donor and acceptor), clause {only} of FusionTrace'
    work = env.scratch('c15_')
    r = env.rng('c15')
    n = 10 if tier == 'quick' else 200
    jl, meta = [], []
    for i in range(n + 1):
        if i < n:
            ref = refgen.random_reference(r, n_genes=r.randrange(2, 4), coding_p=0.7, max_exons=3, aa_len=(12, 22), nc_len=(40, 80),
                                          isoform_p=0.5, flank_p=0.4)
        else:
            # always present: coding three-exon genes on both strands (breakpoints deep inside the intron that has two exons
            # upstream, see breakpoints())
            b_ = refgen.Builder(r)
            for st_ in (1, -1):
                sq_, cs_, ce_, secs_, prot_ = refgen.make_coding_tx_seq(r, r.randrange(14, 22), r.randrange(3, 8), r.randrange(6, 12))
                b_.add_gene(sq_, st_, 3, True, cs_, ce_, secs_, (), prot_, intron=(6, 12))
            ref = b_.finish()
        d = os.path.join(work, f'f{i}')
        paths = ref.write(d)
        genes, txs = ref.features()
        for g in genes:
            g['name'] = ref.genes[g['id']].name
        if r.random() < 0.4:
            # a pseudo-autosomal duplicate, as GENCODE annotates them: the same gene again on chrY under <gene id>_PAR_Y (and
            # <transcript id>_PAR_Y).  Input rows name genes of chr1 only, so every record must name the chr1 gene - also when a
            # FusionCatcher row gives the id without its version.
            pg = r.choice(genes)['id']
            dup = []
            for line in ref.gtf_lines():
                if f'gene_id "{pg}"' in line:
                    line = re.sub(r'((?:gene|transcript|protein)_id "[^"]+)"', r'\1_PAR_Y"', line)
                    dup.append('chrY' + line[line.index('\t'):])
            body = open(paths['annotation_gtf']).read()
            open(paths['annotation_gtf'], 'w').write(body + '\n'.join(dup) + '\n' if r.random() < 0.7 else '\n'.join(dup) + '\n' + body)
            with open(paths['genome_fasta'], 'a') as fh:
                sq = ref.chroms['chr1']
                fh.write('>chrY\n' + '\n'.join(sq[k:k + 60] for k in range(0, len(sq), 60)) + '\n')
        cases = []
        seen = set()
        for gd in genes:
            for ga in genes:
                if gd['id'] == ga['id']:
                    continue
                dts = [t for t in txs if t['gene'] == gd['id']]; ats = [t for t in txs if t['gene'] == ga['id']]
                for lb in breakpoints(r, r.choice(dts), gd, 4):
                    for rb in breakpoints(r, r.choice(ats), ga, 2):
                        if (gd['id'], ga['id'], lb, rb) in seen:
                            continue
                        seen.add((gd['id'], ga['id'], lb, rb))
                        known = r.random() > 0.08
                        cases.append(dict(gd=gd, ga=ga, gdid=gd['id'] if known else 'ENSG99999.1', gaid=ga['id'], gdn=gd['name'],
                                          gan=ga['name'], dts=dts, ats=ats, lb=lb, rb=rb, known=known,
                                          est_j=r.choice([0.0, 2.0, 5.0, 10.0]), common=r.choice([0, 0, 1, 3]),
                                          unique=r.choice([1, 5, 10]), sr1=r.choice([0, 1, 5]), sr2=r.choice([0, 1, 5]),
                                          conf=r.choice(['low', 'medium', 'high']), unversioned=r.random() < 0.5))
        th = dict(min_est_j=r.choice([3.0, 5.0]), max_common_mapping=r.choice([0, 1]), min_spanning_unique=r.choice([5, 6]),
                  min_split_read1=r.choice([1, 2]), min_split_read2=r.choice([1, 2]), min_confidence=r.choice(['medium', 'high']))
        for tool in TOOLS:
            inp = os.path.join(d, f'{tool}.txt'); open(inp, 'w').write(rows(tool, cases, genes))
            outp = os.path.join(d, f'{tool}.gvf')
            common = ['-i', inp, '-o', outp, '-g', paths['genome_fasta'], '-a', paths['annotation_gtf'], '--source', 'Fusion']
            if tool == 'star':
                argv = ['parseSTARFusion'] + common + ['--min-est-j', th['min_est_j']]
            elif tool == 'fc':
                argv = ['parseFusionCatcher'] + common + ['--max-common-mapping', th['max_common_mapping'],
                                                           '--min-spanning-unique', th['min_spanning_unique']]
            else:
                argv = ['parseArriba'] + common + ['--min-split-read1', th['min_split_read1'], '--min-split-read2',
                                                   th['min_split_read2'], '--min-confidence', th['min_confidence']]
            jl.append(dict(argv=argv, read_gvf=outp))
        meta.append(dict(ref=ref, paths=paths, genes=genes, txs=txs, cases=cases, th=th, d=d))
    nj = env.NCPU
    res = jobs.run_jobs('run_parser_case.py', [dict(jobs=jl[k::nj]) for k in range(nj)], timeout=3000)
    flat = [None] * len(jl)
    for k, rr in enumerate(res):
        if not rr.get('ok'):
            rep.machinery(f"worker failed: {rr.get('error')} {rr.get('stderr', '')[-300:]}"); return rep.finish()
        for j, x in enumerate(rr['results']):
            flat[k + j * nj] = x
    # callVariant on the STAR-Fusion GVFs
    cvjobs = []
    for i, m in enumerate(meta):
        a = dict(m['paths']); a.update(cvgen.cli_cfg(CFG))
        # small variants on the transcripts: some before the donor breakpoint, some after the acceptor breakpoint, some elsewhere
        rv = env.rng(f'c15-vars-{i}')
        small = []
        for tt in m['ref'].txs.values():
            if rv.random() < 0.6:
                small += cvgen.random_small_variants(rv, m['ref'], tt, rv.randrange(1, 4), kinds=('SNV', 'SNV', 'INS', 'DEL'),
                                                     lo=0 if rv.random() < 0.3 else None)
        # a substitution on the second-to-last base of an exon: next to a breakpoint that keeps one or two intronic bases
        for tt in m['ref'].txs.values():
            cum = 0
            sq = tt.seq(m['ref'].chroms['chr1'])
            for ex in (tt.exons if tt.strand == 1 else list(reversed(tt.exons)))[:-1]:
                cum += ex[1] - ex[0]
                p_ = cum - 2
                if rv.random() < 0.6 and p_ >= ((tt.cds_start + 3) if tt.coding else 3):
                    v = cvgen.snv_at(m['ref'], tt, sq, p_, rv.choice([b for b in 'ACGT' if b != sq[p_]]))
                    if not cvgen.overlaps_any(v, small):
                        small.append(v)
        # at most 5 variants per gene (the oracle enumerates every subset of the variants placed on a fused sequence)
        rv.shuffle(small)
        kept, cnt = [], {}
        for v in small:
            if cnt.get(v['gene'], 0) < 5:
                kept.append(v); cnt[v['gene']] = cnt.get(v['gene'], 0) + 1
        small = kept
        m['small'] = small
        inputs = [os.path.join(m['d'], 'star.gvf')]
        if small:
            sg = os.path.join(m['d'], 'small.gvf'); cvgen.write_gvf(sg, small); inputs.append(sg)
        a.update(input_path=inputs, output_path=os.path.join(m['d'], 'cv.fasta'),
                 max_variants_per_node=[-1], additional_variants_per_misc=[-1])
        cvjobs.append(dict(cmd='callVariant', args=a))
    cvres = jobs.run_jobs('run_cv_batch.py', [dict(jobs=cvjobs[k::nj]) for k in range(nj)], timeout=3000)
    cvflat = [None] * len(cvjobs)
    for k, rr in enumerate(cvres):
        if rr.get('ok'):
            for j, x in enumerate(rr['results']):
                cvflat[k + j * nj] = x
    # a run that raised is reported (cv-crash) and repeated with --skip-failed, so that the peptides of the units that do not
    # fail are still checked
    crashed = {}
    redo = [i for i, x in enumerate(cvflat) if x is not None and not x['ok'] and os.path.exists(os.path.join(meta[i]['d'], 'star.gvf'))]
    if redo:
        rj = [dict(cmd='callVariant', args=dict(cvjobs[i]['args'], skip_failed=True)) for i in redo]
        rres = jobs.run_jobs('run_cv_batch.py', [dict(jobs=[j]) for j in rj], timeout=3000)
        for i, rr in zip(redo, rres):
            crashed[i] = cvflat[i]['error']
            if rr.get('ok') and rr['results'][0]['ok']:
                cvflat[i] = rr['results'][0]
    cases_out, info = [], []
    n_varlab = 0
    crash_ctx, tight = {}, set()
    case_ref = []
    for i, m in enumerate(meta):
        chrom = m['ref'].chroms['chr1']
        ctx0 = dict(gtf=m['ref'].gtf_lines(), chroms=m['ref'].chroms, thresholds=m['th'], small=[(v['tx'], v['id'], v['start']) for v in m['small']])
        peps_by_fusion = {}
        cv = cvflat[i]
        star_has_records = os.path.exists(os.path.join(m['d'], 'star.gvf'))
        if cv is not None and cv['ok']:
            for h, s in cv['fasta']:
                for e in h.split(' '):
                    if e.startswith('FUSION-'):
                        peps_by_fusion.setdefault(e.split('|')[0], set()).add(s)
                        n_varlab += len(e.split('|')) > 2
        elif cv is not None and star_has_records and i not in crashed:
            crashed[i] = cv['error']
        if i in crashed:
            crash_ctx[i] = ctx0
        for ti, tool in enumerate(TOOLS):
            x = flat[3 * i + ti]
            key0 = env.canon_hash([ctx0, tool])
            if not x['ok'] or x['out']['status'] != 'ok':
                if only:
                    continue
                rep.violation(f"cli:{tool}:{key0}", f"{tool} parser command line failed: {x['out']['status'] if x['ok'] else x.get('error')}",
                              dict(ctx0, log=(x.get('out') or {}).get('log', '')[-600:]))
                continue
            recs = []
            for line in (x['out'].get('gvf') or '').splitlines():
                if line.startswith('#'):
                    continue
                f = line.split('\t')
                at = dict(kv.split('=', 1) for kv in f[7].split(';'))
                recs.append(dict(gene=f[0], pos=int(f[1]) - 1, id=f[2], dtx=at['TRANSCRIPT_ID'], agene=at['ACCEPTER_GENE_ID'],
                                 atx=at['ACCEPTER_TRANSCRIPT_ID'], accpos=int(at['ACCEPTER_POSITION']) - 1, used=False))
            for c in m['cases']:
                gd, ga = c['gd'], c['ga']
                # records of this row: same genes and same positions as the spec's (position check is then re-done by TLC on all
                # records of the gene pair that share the donor position or the acceptor position)
                dpos = (c['lb'] - gd['start'] + 1) if gd['strand'] == 1 else (gd['end'] - 1 - c['lb'] + 1)
                apos = (c['rb'] - ga['start']) if ga['strand'] == 1 else (ga['end'] - 1 - c['rb'])
                mine = [q for q in recs if q['gene'] == gd['id'] and q['agene'] == ga['id'] and q['pos'] == dpos and q['accpos'] == apos]
                for q in mine:
                    q['used'] = True
                dids = [t['id'] for t in c['dts']]; aids = [t['id'] for t in c['ats']]
                peps = []
                if tool == 'star':
                    for q in mine:
                        for s in peps_by_fusion.get(q['id'], ()):
                            peps.append(dict(d=dids.index(q['dtx']) + 1, a=aids.index(q['atx']) + 1, seq=list(s)))
                dinfo = []
                for t in c['dts']:
                    tt = m['ref'].txs[t['id']]
                    dinfo.append(dict(coding=bool(tt.coding), orfStart=tt.cds_start if tt.coding else 0))
                cases_out.append(dict(chrom=list(chrom), gd=dict(start=gd['start'], end=gd['end'], strand=gd['strand']),
                                      ga=dict(start=ga['start'], end=ga['end'], strand=ga['strand']),
                                      dtx=[tx_spec(t) for t in c['dts']], atx=[tx_spec(t) for t in c['ats']], lb=c['lb'], rb=c['rb'],
                                      enough=enough(tool, c, m['th']), known=c['known'],
                                      records=[dict(d=dids.index(q['dtx']) + 1, a=aids.index(q['atx']) + 1, pos=q['pos'], accpos=q['accpos'])
                                               for q in mine if q['dtx'] in dids and q['atx'] in aids],
                                      peps=peps, dinfo=dinfo, cfg=cvgen.spec_cfg(CFG),
                                      dvars=[gene_vars(m['small'], gd['id'], t['id']) for t in c['dts']],
                                      avars=[gene_vars(m['small'], ga['id'], t['id']) for t in c['ats']],
                                      cvran=bool(tool == 'star' and cv is not None and cv['ok']),
                                      allobs=[list(sq) for _, sq in cv['fasta']] if (tool == 'star' and cv is not None and cv['ok']) else [],
                                      proteome=cvgen.proteome_record(m['ref'])))
                case_ref.append(i)
                info.append((key0, tool, dict(ctx0, row=dict(donor=c['gdid'], acceptor=c['gaid'], lb=c['lb'], rb=c['rb'],
                                                            est_j=c['est_j'], common=c['common'], unique=c['unique'], sr1=c['sr1'],
                                                            sr2=c['sr2'], conf=c['conf'])), bool(mine), len(peps)))
            stray = [q for q in recs if not q['used']]
            if stray and not only:
                rep.violation(f"stray:{tool}:{key0}", f"{tool}: {len(stray)} emitted fusion records match no input row at the positions "
                              f"the breakpoints denote, e.g. {stray[0]}", dict(ctx0, stray=stray[:5]))
            log = x['out']['log']
            mt = re.search(r'Totally records read: (\d+)', log)
            if not only and (mt or recs) and (not mt or int(mt.group(1)) != len(m['cases'])):     # the tally is only logged when records were written
                rep.violation(f"tally:{tool}:{key0}", f"{tool}: tally total {mt and mt.group(1)} != rows {len(m['cases'])}", dict(ctx0, log=log[-500:]))
    verdicts = tlc_cases('FusionTrace', cases_out, work, 'fusion', rep)
    for ci_, ((key0, tool, ctx, hit, npep), vs) in enumerate(zip(info, verdicts)):
        vs = [v.strip('"') for v in vs]
        if 'info_tight_junction' in vs:
            tight.add(case_ref[ci_])
        vs = [v for v in vs if not v.startswith('info_')]
        rep.traces(1); rep.case(1, (key0, json.dumps(ctx['row'], sort_keys=True)) if hit else None)
        if 'done' not in vs:
            rep.machinery(f"no verdict for fusion case {key0}")
        bad = sorted(v for v in vs if v != 'done')
        # the completeness clause decides C01 (fusion backbones) and is reported by ./bin/check C01
        bad = [v for v in bad if (v == only if only else v != 'fusion_peptides_complete')]
        if bad:
            rep.violation(f"fusion:{tool}:{key0}:{env.canon_hash(ctx['row'])}:{','.join(bad)}",
                          f"{tool} fusion row {ctx['row']} violates {bad}", ctx)
    # a run that raised: no FASTA, so nothing unsound (not reported by C02); reported by C15 and C01.  The recorded crash class is
    # recognised by its message and by the geometry TLC found in one of the reference's rows (TightJunction)
    if only != 'peptides_from_fused_sequence':
        for i, err in sorted(crashed.items()):
            ctx0 = crash_ctx.get(i, {})
            if 'Downstream node becomes empty' in str(err) and i in tight:
                rep.violation('fusion_crash_variants_one_base_either_side_of_junction',
                              f"callVariant raised on parseSTARFusion output: {err}", ctx0)
            else:
                rep.violation(f"cv-crash:{env.canon_hash(ctx0)}", f"callVariant raised on parseSTARFusion output: {err}", ctx0)
    # the recorded instance of that crash class (corpus/C15_fusion_crash_tight_junction)
    src = os.path.join(env.VERIF, 'corpus', 'C15_fusion_crash_tight_junction')
    if only != 'peptides_from_fused_sequence' and os.path.isdir(src):
        a = dict(genome_fasta=os.path.join(src, 'genome.fasta'), annotation_gtf=os.path.join(src, 'annotation.gtf'),
                 proteome_fasta=os.path.join(src, 'proteome.fasta'))
        a.update(cvgen.cli_cfg(CFG))
        a.update(input_path=[os.path.join(src, 'fusion.gvf'), os.path.join(src, 'small.gvf')], output_path=os.path.join(work, 'corpus_tight.fasta'),
                 max_variants_per_node=[-1], additional_variants_per_misc=[-1])
        rr = jobs.run_jobs('run_cv_batch.py', [dict(jobs=[dict(cmd='callVariant', args=a)])], timeout=600)
        x = rr[0]['results'][0] if rr and rr[0].get('ok') else None
        rep.traces(1); rep.case(1, 'corpus_tight_junction')
        if x is None:
            rep.machinery('corpus C15_fusion_crash_tight_junction did not run')
        elif not x['ok'] and 'Downstream node becomes empty' in str(x['error']):
            rep.violation('fusion_crash_variants_one_base_either_side_of_junction',
                          f"corpus/C15_fusion_crash_tight_junction: callVariant raised {x['error']}", dict(corpus='corpus/C15_fusion_crash_tight_junction'))
        elif not x['ok']:
            rep.violation('cv-crash:corpus_tight_junction', f"corpus/C15_fusion_crash_tight_junction: callVariant raised {x['error']}",
                          dict(corpus='corpus/C15_fusion_crash_tight_junction'))
    rep.part('fusion', peptides_checked=sum(x[4] for x in info), rows=len(info), fusion_labels_with_small_variants=n_varlab)
    if only_complete:
        return None
    if info:
        rep.sample(dict(tool=info[0][1], row=info[0][2]['row'], record_emitted=info[0][3]))
    return rep.finish()
