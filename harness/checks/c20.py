"""C20: decoyFasta (spec/DecoyTrace.tla)."""
import json, os
from vlib import env, tlc, report, jobs, mpg
from checks.cv import tlc_cases

AAS = 'ACDEFGHIKLMNPQRSTVWY'


def rand_targets(r, n):
    out, seen = [], set()
    while len(out) < n:
        kind = r.random()
        L = r.randrange(2, 18)
        if kind < 0.25:       # low complexity
            s = ''.join(r.choice('AK') for _ in range(L))
        elif kind < 0.4:
            s = r.choice(AAS) * L
        elif kind < 0.7:      # tryptic-looking
            s = ''.join(r.choice('KR' if r.random() < 0.25 else AAS) for _ in range(L))
        else:
            s = ''.join(r.choice(AAS) for _ in range(L))
        if s in seen:
            continue
        seen.add(s)
        out.append(dict(header=f'ENST{len(out):04d}.1|SNV-{10 + len(out)}-A-T|{1 + len(out) % 3}', seq=s))
    return out


def check_c20(tier):
    rep = report.Report('C20', tier)
    rep.cov['rule'] = ("random target FASTAs (incl. low-complexity and homopolymer sequences, sites at both ends, length 2-17) x "
                       "method x enzyme (none/trypsin/lysc/asp-n/lysn) x N-/C-term flags x listed residues x seed x output order x "
                       "decoy string/position; each (target, decoy) pair and the record order of the real decoyFasta output are "
                       "validated by TLC; second run with the same seed and a run on permuted input are compared; non-trivial = "
                       "some target has at least two distinct free residues")
    work = env.scratch('c20_')
    r = env.rng('c20')
    n = 150 if tier == 'quick' else 4000
    jl, meta = [], []
    for i in range(n):
        d = os.path.join(work, f'd{i}'); os.makedirs(d, exist_ok=True)
        targets = rand_targets(r, r.randrange(1, 12))
        opts = dict(method=r.choice(['reverse', 'shuffle']), rule=r.choice(['', '', 'trypsin', 'lysc', 'asp-n', 'lysn']),
                    keepN=r.random() < 0.6, keepC=r.random() < 0.6, pattern=r.sample('KRPDW', r.randrange(0, 3)),
                    decoyString=r.choice(['DECOY_', 'rev_', '#REV#']), position=r.choice(['prefix', 'suffix']),
                    order=r.choice(['juxtaposed', 'target_first', 'decoy_first']), seeded=True)
        seed = r.randrange(0, 10 ** 6)
        f1 = os.path.join(d, 'in.fasta'); mpg.write_fasta(f1, [(t['header'], t['seq']) for t in targets])
        perm = list(targets); r.shuffle(perm)
        f2 = os.path.join(d, 'in_perm.fasta'); mpg.write_fasta(f2, [(t['header'], t['seq']) for t in perm])
        def args(inp, out):
            return dict(input_path=inp, output_path=out, method=opts['method'], enzyme=opts['rule'] or None,
                        non_shuffle_pattern=','.join(opts['pattern']), shuffle_max_attempts=30,
                        keep_peptide_nterm='true' if opts['keepN'] else 'false',
                        keep_peptide_cterm='true' if opts['keepC'] else 'false', seed=seed, order=opts['order'],
                        decoy_string=opts['decoyString'], decoy_string_position=opts['position'])
        jl.append(dict(op='seq', steps=[dict(op='decoy', args=args(f1, os.path.join(d, 'o1.fasta'))),
                                        dict(op='decoy', args=args(f1, os.path.join(d, 'o2.fasta'))),
                                        dict(op='decoy', args=args(f2, os.path.join(d, 'o3.fasta')))]))
        meta.append(dict(targets=targets, opts=opts, seed=seed))
    nj = env.NCPU
    res = jobs.run_jobs('run_pool_ops.py', [dict(jobs=jl[k::nj]) for k in range(nj)], timeout=3000)
    flat = [None] * len(jl)
    for k, rr in enumerate(res):
        if not rr.get('ok'):
            rep.machinery(f"worker failed: {rr.get('error')} {rr.get('stderr', '')[-300:]}"); return rep.finish()
        for j, x in enumerate(rr['results']):
            flat[k + j * nj] = x
    cases, info = [], []
    for m, x in zip(meta, flat):
        ctx = dict(targets=[(t['header'], t['seq']) for t in m['targets']], opts=m['opts'], seed=m['seed'])
        key = env.canon_hash(ctx)
        st = x['steps']
        if not all(s['ok'] for s in st):
            rep.case(1, key)
            rep.violation(f"crash:{key}", f"decoyFasta raised {[s.get('error') for s in st if not s['ok']]}", ctx)
            continue
        conv = lambda s: [dict(header=h, seq=list(q)) for h, q in s['fasta']]
        cases.append(dict(targets=[dict(header=t['header'], seq=list(t['seq'])) for t in m['targets']], opts=m['opts'],
                          output=conv(st[0]), rerun=conv(st[1]), permuted=conv(st[2])))
        fixedish = lambda s: len(set(s[1:-1])) >= 2
        info.append((key, ctx, any(fixedish(t['seq']) for t in m['targets']), st[0]['fasta']))
    verdicts = tlc_cases('DecoyTrace', cases, work, 'decoy', rep)
    for (key, ctx, nontriv, out), vs in zip(info, verdicts):
        vs = [v.strip('"') for v in vs]
        rep.traces(1); rep.case(1, key if nontriv else None)
        if 'done' not in vs:
            rep.machinery(f"no verdict for decoy case {key}")
        bad = sorted(v for v in vs if v != 'done')
        if bad == ['enzyme_sites_fixed'] and ctx['opts']['rule']:
            rep.violation('enzyme_site_is_p1prime', f"decoyFasta with --enzyme {ctx['opts']['rule']} does not keep the residue at a "
                          f"cleavage site in place (it keeps the following residue)", dict(ctx, output=out))
        elif bad:
            rep.violation(f"decoy:{key}:{','.join(bad)}", f"decoyFasta violates {bad} (options {ctx['opts']}, seed {ctx['seed']})",
                          dict(ctx, output=out))
    if info:
        rep.sample(dict(options=info[0][1]['opts'], targets=info[0][1]['targets'][:3], output=info[0][3][:6]))
    return rep.finish()
