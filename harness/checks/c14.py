"""C14: parseVEP / parseREDItools (spec/Parsers.tla, VepTrace.tla)."""
import json, os
from vlib import env, tlc, report, jobs, refgen
from checks.cv import tlc_cases


def tx_spec(t):
    return dict(strand=t['strand'], exons=t['exons'], cds=t['cds'], utr=t['utr'], sec=t['sec'], gene=0)


def vep_events(r, chrom, t, dense):
    """All positions around and inside the transcript x event kinds."""
    lo, hi = t['exons'][0][0], t['exons'][-1][1]        # 0-based half-open span
    bases = 'ACGT'
    evs = []
    positions = range(max(1, lo - 3), min(len(chrom) - 5, hi + 3))
    for p in positions:            # p: 0-based position of the first affected base
        # the transcript boundaries (three bases either side of the first and of the last base) are always covered
        if not dense and r.random() < 0.6 and not (p <= lo + 2 or p >= hi - 4):
            continue
        ref = chrom[p]
        alt = r.choice([b for b in bases if b != ref])
        evs.append(dict(location=f'chr1:{p + 1}', allele=alt, loc=[p + 1, p + 1]))                     # SNV
        n = r.randrange(1, 4)
        evs.append(dict(location=f'chr1:{p + 1}' if n == 1 else f'chr1:{p + 1}-{p + n}', allele='-', loc=[p + 1, p + n]))   # deletion
        ins = ''.join(r.choice(bases) for _ in range(r.randrange(1, 4)))
        evs.append(dict(location=f'chr1:{p + 1}-{p + 2}', allele=ins, loc=[p + 1, p + 2]))              # insertion between p, p+1
        m = r.randrange(3, 5)
        sub = ''.join(r.choice(bases) for _ in range(r.randrange(2, 5)))
        evs.append(dict(location=f'chr1:{p + 1}-{p + m}', allele=sub, loc=[p + 1, p + m]))              # substitution
        x = ''.join(r.choice(bases) for _ in range(r.randrange(1, 3)))
        evs.append(dict(location=f'chr1:{p + 1}', allele=(x + ref) if r.random() < 0.5 else (ref + x), loc=[p + 1, p + 1]))
    return evs


def check_c14(tier):
    rep = report.Report('C14', tier)
    rep.cov['rule'] = ("random annotations (both strands, 1-3 exons, genes wider than their transcripts, isoforms) x every position from "
                       "one base before to one base after each transcript x event kinds (SNV, 1-3 nt deletion, 1-3 nt insertion, 3-4 nt "
                       "substitution, single-position multi-base alleles) through the real VEPRecord.convert_to_variant_record; "
                       "REDItools rows x thresholds around every count; TLC checks REF, the denoted gene sequence against the gene "
                       "re-extracted from the edited chromosome, justified rejections, mandatory acceptance strictly inside; "
                       "non-trivial = record emitted")
    work = env.scratch('c14_')
    r = env.rng('c14')
    n_refs = 8 if tier == 'quick' else 150
    jl, meta = [], []
    for i in range(n_refs):
        ref = refgen.random_reference(r, n_genes=r.randrange(1, 3), coding_p=0.7, max_exons=3, aa_len=(6, 12), nc_len=(20, 45),
                                      isoform_p=0.5, flank_p=0.8, utr5=(0, 6), utr3=(0, 8), iso_terminal_p=0.5)
        if r.random() < 0.5:
            for t in ref.txs.values():
                if t.coding and r.random() < 0.6:
                    t.tags.append('cds_start_NF')
        if r.random() < 0.6:
            # an antisense (or sense) non-coding gene overlapping an existing transcript: one site, two genes
            t0 = r.choice(list(ref.txs.values()))
            s0, e0 = t0.exons[0]
            sub = [(s0 + 1, max(s0 + 3, e0 - 1))] if e0 - s0 > 6 else None
            refgen.add_shadow(ref, t0, strand=r.choice([1, -1]), exons=sub if r.random() < 0.5 else None)
        d = os.path.join(work, f'r{i}')
        paths = ref.write(d)
        genes, txs = ref.features()
        chrom = ref.chroms['chr1']
        vep, redi, vm, rm = [], [], [], []
        for t in txs:
            g = next(x for x in genes if x['id'] == t['gene'])
            for ev in vep_events(r, chrom, t, dense=(tier == 'thorough' or i < 3)):
                vep.append(dict(location=ev['location'], allele=ev['allele'], gene=g['id'], tx=t['id']))
                vm.append(dict(tool='vep', chrom=list(chrom), gene=dict(start=g['start'], end=g['end'], strand=g['strand']),
                               tx=tx_spec(t), loc=ev['loc'], allele=list(ev['allele']), startNF='cds_start_NF' in t['tags']))
        gindex = {g['id']: k + 1 for k, g in enumerate(genes)}
        for g in genes:
            gtx = list(txs)        # a row may list transcripts of every gene overlapping the site
            for pos in range(g['start'], g['end']):
                if r.random() < (0.5 if tier == 'quick' else 1.0):
                    continue
                counts = [r.choice([0, 1, 2, 3, 5, 9, 10, 11, 30]) for _ in range(4)]
                refb = chrom[pos]
                subs = [[refb, b] for b in r.sample([x for x in 'ACGT' if x != refb], r.randrange(1, 3))]
                th = dict(min_coverage_alt=r.choice([1, 3, 10]), min_frequency_alt=r.choice([0.0625, 0.125, 0.25, 0.5]),
                          min_coverage_rna=r.choice([5, 10, 20]), min_coverage_dna=r.choice([-1, 5, 10]))
                if r.random() < 0.5:
                    # boundary cases: frequency exactly at / just around the threshold, counts at the minima
                    den = int(1 / th['min_frequency_alt'])
                    k = r.choice([1, 2, 3, th['min_coverage_alt']])
                    alt_n = k + r.choice([0, 0, -1, 1]) if k > 1 else k
                    total = k * den
                    ai = 'ACGT'.index(subs[0][1]); ri = 'ACGT'.index(refb)
                    counts = [0, 0, 0, 0]
                    counts[ai] = max(0, alt_n)
                    counts[ri] = max(0, total - counts[ai])
                    if r.random() < 0.3:
                        th['min_coverage_rna'] = sum(counts) + r.choice([0, 1, -1])
                gcov = r.choice([-1, None, 0, 4, 5, 9, 10, 11, 50])
                sel = [t for t in gtx if r.random() < 0.8 and t['exons'][0][0] <= pos < t['exons'][-1][1]]
                if not sel:
                    continue
                # the Frequency column as REDItools writes it: alt / (ref + alt) of the FIRST listed substitution, two decimals
                # (it says nothing about the other substitutions and is coarser than the thresholds used here)
                a1 = counts['ACGT'.index(subs[0][1])]; rf = counts['ACGT'.index(refb)]
                freq_col = round(a1 / (a1 + rf), 2) if a1 + rf else 0.0
                redi.append(dict(chrom='chr1', position=pos + 1, reference=refb, strand=1, coverage=sum(counts), counts=counts,
                                 subs=subs, gcov=gcov, txs=[t['id'] for t in sel], frequency=freq_col, **th))
                num = {0.0625: [1, 16], 0.125: [1, 8], 0.25: [1, 4], 0.5: [1, 2]}[th['min_frequency_alt']]
                rm.append(dict(tool='redi', genes=[dict(start=x['start'], end=x['end'], strand=x['strand']) for x in genes],
                               geneids=[x['id'] for x in genes],
                               txs=[dict(tx_spec(t), gene=gindex[t['gene']]) for t in sel], txids=[t['id'] for t in sel], pos=pos, counts=counts,
                               subs=[[a, b] for a, b in subs], gcov=-2 if gcov is None else gcov, minCovAlt=th['min_coverage_alt'],
                               minFreq=num, minCovRna=th['min_coverage_rna'], minCovDna=th['min_coverage_dna']))
        jl.append(dict(paths=paths, vep=vep, redi=redi))
        meta.append((ref, vm, rm, vep, redi))
    res = jobs.run_jobs('run_parser_case.py', [dict(jobs=[j]) for j in jl], timeout=3000)
    cases, info = [], []
    for (ref, vm, rm, vep, redi), rr in zip(meta, res):
        if not rr.get('ok') or not rr['results'][0]['ok']:
            rep.machinery(f"parser worker failed: {rr.get('error') or rr['results'][0].get('error')} {rr.get('stderr', '')[-300:]}")
            continue
        out = rr['results'][0]['out']
        for c, o, v in zip(vm, out['vep'], vep):
            c = dict(c, outcome=o['outcome'])
            c['rec'] = dict(start=o['rec']['start'], end=o['rec']['end'], ref=o['rec']['ref'], alt=o['rec']['alt']) \
                if o['outcome'] == 'record' else dict(start=0, end=0, ref=[], alt=[])
            cases.append(c)
            info.append((ref, v, o))
        for c, o, v in zip(rm, out['redi'], redi):
            if not o['ok']:
                rep.violation(f"redi-crash:{env.canon_hash(v)}", f"REDItools record conversion raised {o['error']}", v)
                continue
            c = dict(c)
            ids = c.pop('txids')
            gids = c.pop('geneids')
            c['records'] = [dict(tx=ids.index(x['tx']) + 1, gene=gids.index(x['gene']) + 1 if x['gene'] in gids else 0,
                                 start=x['start'], ref=x['ref'][0], alt=x['alt'][0]) for x in o['records']]
            cases.append(c)
            info.append((ref, v, o))
    # the same VEP rows through the real command line (parseVEP reads one file with the rows of every transcript in random
    # order, converts them in one process and writes one GVF): each row's outcome is read off the emitted GVF - the record whose
    # TRANSCRIPT_ID and GENOMIC_POSITION are the row's - and goes through the same VepTrace clauses
    cj, cmeta = [], []
    for ri, ((ref, vm, rm, vep, redi), rr) in enumerate(zip(meta, res)):
        if not rr.get('ok') or not rr['results'][0]['ok'] or not vep:
            continue
        d = os.path.join(work, f'r{ri}')
        rows = list(range(len(vep))); r.shuffle(rows)
        with open(os.path.join(d, 'vep.tsv'), 'w') as fh:
            fh.write('#Uploaded_variation\tLocation\tAllele\tGene\tFeature\tFeature_type\tConsequence\tcDNA_position\tCDS_position\t'
                     'Protein_position\tAmino_acids\tCodons\tExisting_variation\tExtra\n')
            for k in rows:
                v = vep[k]
                fh.write('\t'.join(['.', v['location'], v['allele'], v['gene'], v['tx'], 'Transcript', 'missense_variant', '-', '-', '-',
                                    '-', '-', '-', 'IMPACT=MODERATE']) + '\n')
        paths = dict(genome_fasta=os.path.join(d, 'genome.fasta'), annotation_gtf=os.path.join(d, 'annotation.gtf'))
        outp = os.path.join(d, 'vep.gvf')
        cj.append(dict(argv=['parseVEP', '-i', os.path.join(d, 'vep.tsv'), '-o', outp, '-g', paths['genome_fasta'], '-a',
                             paths['annotation_gtf'], '--source', 'gSNP', '--skip-failed'], read_gvf=outp))
        cmeta.append(ri)
    cres = jobs.run_jobs('run_parser_case.py', [dict(jobs=[j]) for j in cj], timeout=3000) if cj else []
    n_cli = 0
    for ri, rr in zip(cmeta, cres):
        ref, vm, rm, vep, redi = meta[ri]
        out = res[ri]['results'][0]['out']
        if not rr.get('ok') or not rr['results'][0]['ok'] or rr['results'][0]['out']['status'] != 'ok':
            x = rr['results'][0] if rr.get('ok') else rr
            rep.violation(f"vep-cli:{env.canon_hash(ref.gtf_lines())}", f"parseVEP command line failed: "
                          f"{(x.get('out') or {}).get('status') or x.get('error')}", dict(gtf=ref.gtf_lines(), chroms=ref.chroms,
                                                                                      log=(x.get('out') or {}).get('log', '')[-600:]))
            continue
        recs = []
        for line in (rr['results'][0]['out'].get('gvf') or '').splitlines():
            if line.startswith('#'):
                continue
            f = line.split('\t')
            at = dict(kv.split('=', 1) for kv in f[7].split(';'))
            recs.append(dict(tx=at['TRANSCRIPT_ID'], loc=at['GENOMIC_POSITION'], start=int(f[1]) - 1, ref=f[3], alt=f[4], used=False))
        order = sorted(range(len(vep)), key=lambda k: out['vep'][k]['outcome'] != 'record')     # rows the classes accept first
        cli_out = [None] * len(vep)
        for k in order:
            v, o = vep[k], out['vep'][k]
            cands = [q for q in recs if not q['used'] and q['tx'] == v['tx'] and q['loc'] == v['location']]
            if o['outcome'] == 'record':
                cands = [q for q in cands if q['start'] == o['rec']['start'] and q['ref'] == ''.join(o['rec']['ref'])
                         and q['alt'] == ''.join(o['rec']['alt'])] or []
            if cands:
                q = cands[0]; q['used'] = True
                cli_out[k] = dict(outcome='record', rec=dict(start=q['start'], end=q['start'] + len(q['ref']), ref=list(q['ref']), alt=list(q['alt'])))
            else:
                cli_out[k] = dict(outcome='reject_start')
        for k, (c, v) in enumerate(zip(vm, vep)):
            o = cli_out[k]
            c = dict(c, outcome=o['outcome'], rec=o.get('rec') or dict(start=0, end=0, ref=[], alt=[]))
            cases.append(c); info.append((ref, dict(v, via='parseVEP command line'), o)); n_cli += 1
        stray = [q for q in recs if not q['used']]
        if stray:
            rep.violation(f"vep-cli-stray:{env.canon_hash([ref.gtf_lines(), stray[:3]])}",
                          f"parseVEP wrote {len(stray)} records that belong to no input row, e.g. {stray[0]}",
                          dict(gtf=ref.gtf_lines(), chroms=ref.chroms, stray=stray[:5]))
    rep.part('vep_command_line', rows=n_cli)
    verdicts = tlc_cases('VepTrace', cases, work, 'vep', rep)
    nrec = 0
    for (ref, v, o), vs in zip(info, verdicts):
        vs = [x.strip('"') for x in vs]
        key = env.canon_hash([ref.gtf_lines(), v])
        emitted = o.get('outcome') == 'record' or bool(o.get('records'))
        rep.traces(1); rep.case(1, key if emitted else None)
        if 'done' not in vs:
            rep.machinery(f"no verdict for parser case {key}")
        bad = sorted(x for x in vs if x != 'done')
        if 'vep_negative_position_multibase' in bad:
            bad = [x for x in bad if x not in ('vep_negative_position_multibase', 'vep_outside_not_recorded')]
            rep.violation('vep_multibase_allele_at_gene_start', f"parser record for {v} has a negative gene position; result {json.dumps(o)[:200]}",
                          dict(gtf=ref.gtf_lines(), chroms=ref.chroms, input=v, result=o))
        if bad:
            rep.violation(f"parse:{key}:{','.join(bad)}", f"parser record for {v} violates {bad}; result {json.dumps(o)[:300]}",
                          dict(gtf=ref.gtf_lines(), chroms=ref.chroms, input=v, result=o))
    if info:
        k = next((j for j, x in enumerate(info) if x[2].get('outcome') == 'record'), 0)
        rep.sample(dict(vep_row=info[k][1], result=info[k][2]))
    return rep.finish()
