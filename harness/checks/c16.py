"""C16: parseRMATS through its real command line (spec/Rmats.tla, RmatsTrace.tla)."""
import json, os, re
from vlib import env, tlc, report, jobs, refgen
from checks.cv import tlc_cases

TYPES = ('SE', 'A5SS', 'A3SS', 'MXE', 'RI')
HEAD = {
    'SE': 'ID\tGeneID\tgeneSymbol\tchr\tstrand\texonStart_0base\texonEnd\tupstreamES\tupstreamEE\tdownstreamES\tdownstreamEE\tID\t'
          'IJC_SAMPLE_1\tSJC_SAMPLE_1\tIJC_SAMPLE_2\tSJC_SAMPLE_2\tIncFormLen\tSkipFormLen\tPValue\tFDR\tIncLevel1\tIncLevel2\t'
          'IncLevelDifference',
    'A5SS': 'ID\tGeneID\tgeneSymbol\tchr\tstrand\tlongExonStart_0base\tlongExonEnd\tshortES\tshortEE\tflankingES\tflankingEE\tID\t'
            'IJC_SAMPLE_1\tSJC_SAMPLE_1\tIJC_SAMPLE_2\tSJC_SAMPLE_2\tIncFormLen\tSkipFormLen\tPValue\tFDR\tIncLevel1\tIncLevel2\t'
            'IncLevelDifference',
    'MXE': 'ID\tGeneID\tgeneSymbol\tchr\tstrand\t1stExonStart_0base\t1stExonEnd\t2ndExonStart_0base\t2ndExonEnd\tupstreamES\t'
           'upstreamEE\tdownstreamES\tdownstreamEE\tID\tIJC_SAMPLE_1\tSJC_SAMPLE_1\tIJC_SAMPLE_2\tSJC_SAMPLE_2\tIncFormLen\t'
           'SkipFormLen\tPValue\tFDR\tIncLevel1\tIncLevel2\tIncLevelDifference',
    'RI': 'ID\tGeneID\tgeneSymbol\tchr\tstrand\triExonStart_0base\triExonEnd\tupstreamES\tupstreamEE\tdownstreamES\tdownstreamEE\tID\t'
          'IJC_SAMPLE_1\tSJC_SAMPLE_1\tIJC_SAMPLE_2\tSJC_SAMPLE_2\tIncFormLen\tSkipFormLen\tPValue\tFDR\tIncLevel1\tIncLevel2\t'
          'IncLevelDifference',
}
HEAD['A3SS'] = HEAD['A5SS']
FLAG = {'SE': '--se', 'A5SS': '--a5ss', 'A3SS': '--a3ss', 'MXE': '--mxe', 'RI': '--ri'}


def row(ev, gid, strand, ijc, sjc):
    t = ev['type']
    if t == 'SE':
        co = ev['ex'] + ev['up'] + ev['down']
    elif t in ('A5SS', 'A3SS'):
        co = ev['long'] + ev['short'] + ev['flank']
    elif t == 'MXE':
        co = ev['first'] + ev['second'] + ev['up'] + ev['down']
    else:
        co = [ev['up'][0], ev['down'][1]] + ev['up'] + ev['down']
    f = ['0', f'"{gid}"', '"GN1"', 'chr1', '+' if strand == 1 else '-'] + [str(x) for x in co] + \
        ['0', str(ijc), str(sjc), '', '', '148', '74', 'NA', 'NA', 'NA', '', 'NA']
    return '\t'.join(f)


def subset(r, items, p):
    return [x for x in items if r.random() < p]


def make_world(r, etype=None):
    """One gene (either strand) with exon 'slots', an event built on the slots, and a set of isoforms
    that carry the inclusion form, the skipping form, partial layouts or unrelated layouts."""
    strand = r.choice([1, -1])
    n = r.randrange(4, 7)
    pos = r.randrange(6, 14)
    gstart = pos - r.randrange(0, 5)
    slots = []
    for k in range(n):
        L = r.randrange(5, 12)
        slots.append([pos, pos + L]); pos += L + r.randrange(3, 9)
    gend = slots[-1][1] + r.randrange(0, 6)
    chrom = refgen.rand_dna(r, gend + r.randrange(5, 12))
    etype = etype or r.choice(TYPES)
    isos = {}        # name -> exon list

    def ctx(lo, hi, p=0.6):
        """random exons before slot lo / after slot hi"""
        return [slots[k] for k in range(0, lo) if r.random() < p], [slots[k] for k in range(hi + 1, n) if r.random() < p]

    def shift_start(e, d):
        return [e[0] + d, e[1]]

    def shift_end(e, d):
        return [e[0], e[1] - d]

    if etype == 'SE':
        a, b, c = sorted(r.sample(range(n), 3))
        if r.random() < 0.7:      # usually neighbouring exons
            a = r.randrange(0, n - 2); b, c = a + 1, a + 2
        up, ex, down = slots[a], slots[b], slots[c]
        ev = dict(type='SE', up=up, ex=ex, down=down)
        pre, suf = ctx(a, c)
        isos['inc'] = pre + [up, ex, down] + suf
        isos['skip'] = pre + [up, down] + suf
        isos['inc_shifted_outer'] = pre + [shift_start(up, 1), ex, shift_end(down, 1)] + suf
        isos['skip_shifted_outer'] = pre + [shift_start(up, 2), shift_end(down, 2)] + suf
        isos['up_ex_only'] = pre + [up, ex] + ([slots[c + 1]] if c + 1 < n else [])
        isos['ex_down_only'] = ([slots[a - 1]] if a > 0 else []) + [ex, down] + suf
        isos['up_altdown'] = pre + [up, shift_start(down, 2)] + suf
        isos['altup_down'] = pre + [shift_end(up, 2), down] + suf
        isos['inc_altex'] = pre + [up, shift_end(ex, 1), down] + suf
        if c - a > 2:
            isos['with_interjacent'] = pre + slots[a:c + 1] + suf
    elif etype in ('A5SS', 'A3SS'):
        # geometry: alternative END with the flank downstream (A5SS on +, A3SS on -), or
        #           alternative START with the flank upstream  (A5SS on -, A3SS on +)
        alt_end = (etype == 'A5SS') == (strand == 1)
        a = r.randrange(0, n - 1); c = min(n - 1, a + r.choice([1, 1, 1, 2, 3, 3, 4]))
        d = r.randrange(1, 4)
        if alt_end:
            long, short, flank = slots[a], shift_end(slots[a], d), slots[c]
            pre, suf = ctx(a, c)
            isos['inc'] = pre + [long, flank] + suf
            isos['skip'] = pre + [short, flank] + suf
            isos['inc_shifted_outer'] = pre + [shift_start(long, 1), shift_end(flank, 1)] + suf
            isos['skip_shifted_outer'] = pre + [shift_start(short, 1), shift_end(flank, 1)] + suf
            isos['long_altflank'] = pre + [long, shift_start(flank, 2)] + suf
            isos['other_end'] = pre + [shift_end(long, d + 1), flank] + suf
            if c - a > 1:
                isos['with_interjacent'] = pre + slots[a:c + 1] + suf
        else:
            long, short, flank = slots[c], shift_start(slots[c], d), slots[a]
            pre, suf = ctx(a, c)
            isos['inc'] = pre + [flank, long] + suf
            isos['skip'] = pre + [flank, short] + suf
            isos['inc_shifted_outer'] = pre + [shift_start(flank, 1), shift_end(long, 1)] + suf
            isos['skip_shifted_outer'] = pre + [shift_start(flank, 1), shift_end(short, 1)] + suf
            isos['long_altflank'] = pre + [shift_end(flank, 2), long] + suf
            isos['other_start'] = pre + [flank, shift_start(long, d + 1)] + suf
            if c - a > 1:
                isos['with_interjacent'] = pre + slots[a:c + 1] + suf
        ev = dict(type=etype, long=long, short=short, flank=flank)
    elif etype == 'MXE':
        a = r.randrange(0, n - 3)
        b1, b2, c = a + 1, a + 2, a + 3
        up, first, second, down = slots[a], slots[b1], slots[b2], slots[c]
        ev = dict(type='MXE', up=up, first=first, second=second, down=down)
        pre, suf = ctx(a, c)
        isos['inc'] = pre + [up, first, down] + suf
        isos['skip'] = pre + [up, second, down] + suf
        isos['inc_shifted_outer'] = pre + [shift_start(up, 1), first, shift_end(down, 1)] + suf
        isos['skip_shifted_outer'] = pre + [shift_start(up, 1), second, shift_end(down, 1)] + suf
        isos['both'] = pre + [up, first, second, down] + suf
        isos['neither'] = pre + [up, down] + suf
        isos['up_second_only'] = pre + [up, second]
        isos['first_down_only'] = [first, down] + suf
        isos['second_down_only'] = [second, down] + suf
    else:
        a = r.randrange(0, n - 1); c = a + 1
        up, down = slots[a], slots[c]
        ev = dict(type='RI', up=up, down=down)
        pre, suf = ctx(a, c)
        isos['skip'] = pre + [up, down] + suf
        isos['inc'] = pre + [[up[0], down[1]]] + suf
        isos['skip_shifted_outer'] = pre + [shift_start(up, 1), shift_end(down, 1)] + suf
        isos['inc_shifted_outer'] = pre + [[up[0] + 1, down[1] - 1]] + suf
        isos['up_altdown'] = pre + [up, shift_start(down, 1)] + suf
        isos['unrelated'] = [s for k, s in enumerate(slots) if k not in (a, c)]
    # choose isoforms: usually one carrying a form, plus a few others
    names = list(isos)
    chosen = []
    mode = r.random()
    if mode < 0.35:
        chosen = [r.choice(['inc', 'skip'])]
    elif mode < 0.5:
        chosen = [r.choice(['inc_shifted_outer', 'skip_shifted_outer'])]
    elif mode < 0.6:
        chosen = ['inc', 'skip']
    else:
        chosen = [r.choice(['inc', 'skip', 'inc_shifted_outer', 'skip_shifted_outer'])]
    others = [x for x in names if x not in chosen and r.random() < 0.3]
    if mode >= 0.5:
        chosen += others[:2]
    elif r.random() < 0.4:
        chosen += [x for x in others if x not in ('inc', 'skip', 'inc_shifted_outer', 'skip_shifted_outer')][:2]
    if 'with_interjacent' in isos and 'with_interjacent' not in chosen and r.random() < 0.7:
        chosen.append('with_interjacent')
    layouts, seen = [], set()
    for nm in chosen:
        ex = sorted(isos[nm])
        ok = len(ex) >= 1 and all(e[1] - e[0] >= 2 for e in ex) and all(ex[k][1] < ex[k + 1][0] for k in range(len(ex) - 1))
        key = tuple(map(tuple, ex))
        if ok and key not in seen and ex[0][0] >= gstart and ex[-1][1] <= gend:
            seen.add(key); layouts.append((nm, ex))
    if not layouts:
        return None
    r.shuffle(layouts)
    ref = refgen.Reference()
    ref.chroms['chr1'] = chrom
    g = refgen.Gene('ENSG00001.1', 'chr1', gstart, gend, strand, biotype='lncRNA')
    ref.genes[g.id] = g
    for k, (nm, ex) in enumerate(layouts):
        tid = f'ENST0000{k + 1}.1'
        ref.txs[tid] = refgen.Tx(tid, g.id, strand, ex, False)
        g.txs.append(tid)
    return dict(ref=ref, ev=ev, strand=strand, gene=dict(start=gstart, end=gend, strand=strand), layouts=layouts, chrom=chrom)


def parse_gvf(text):
    recs = []
    for line in text.splitlines():
        if not line or line.startswith('#'):
            continue
        f = line.split('\t')
        attrs = dict(x.split('=', 1) for x in f[7].split(';') if '=' in x)
        kind = {'<INS>': 'Insertion', '<DEL>': 'Deletion', '<SUB>': 'Substitution'}.get(f[4], f[4])
        start = int(f[1]) - 1
        rec = dict(gene=f[0], id=f[2], ref=list(f[3]), kind=kind, txid=attrs.get('TRANSCRIPT_ID', ''), start=start,
                   end=int(attrs['END']) if 'END' in attrs else start + 1,
                   dstart=int(attrs['DONOR_START']) - 1 if 'DONOR_START' in attrs else 0,
                   dend=int(attrs['DONOR_END']) if 'DONOR_END' in attrs else 0, line=line)
        recs.append(rec)
    return recs


def check_c16(tier):
    rep = report.Report('C16', tier)
    rep.cov['rule'] = ("random genes (both strands, 4-6 exon slots) x one rMATS event (SE, A5SS, A3SS, MXE, RI; both genomic geometries "
                       "of the alternative splice sites) x isoform sets carrying the inclusion form, the skipping form, both, forms "
                       "whose outer exon ends differ from the reported exons, partial and unrelated layouts x IJC/SJC around "
                       "--min-ijc/--min-sjc; the real command line parseRMATS is run per event and the GVF is read back; TLC checks "
                       "that every record on a transcript carrying one of the forms reproduces the other form's sequence, that the "
                       "form is not annotated already and is supported; non-trivial = a record on such a transcript was validated")
    work = env.scratch('c16_')
    r = env.rng('c16')
    n = 480 if tier == 'quick' else 16000
    jl, meta = [], []
    for i in range(n):
        w = make_world(r, TYPES[i % 5])
        if not w:
            continue
        d = os.path.join(work, f'r{i}')
        paths = w['ref'].write(d)
        ijc, sjc = r.choice([0, 1, 2, 3, 5]), r.choice([0, 1, 2, 3, 5])
        mi, ms = r.choice([1, 1, 2, 3]), r.choice([1, 1, 2, 3])
        t = w['ev']['type']
        inp = os.path.join(d, f'ev.{t}.JC.txt')
        open(inp, 'w').write(HEAD[t] + '\n' + row(w['ev'], 'ENSG00001.1', w['strand'], ijc, sjc) + '\n')
        outp = os.path.join(d, 'as.gvf')
        argv = ['parseRMATS', FLAG[t], inp, '-o', outp, '-g', paths['genome_fasta'], '-a', paths['annotation_gtf'], '--source', 'AS',
                '--min-ijc', mi, '--min-sjc', ms]
        jl.append(dict(argv=argv, read_gvf=outp))
        meta.append(dict(w=w, ijc=ijc, sjc=sjc, mi=mi, ms=ms, argv=[str(a) for a in argv], row=open(inp).read()))
    nj = env.NCPU
    res = jobs.run_jobs('run_parser_case.py', [dict(jobs=jl[k::nj]) for k in range(nj)], timeout=3000)
    flat = [None] * len(jl)
    for k, rr in enumerate(res):
        if not rr.get('ok'):
            rep.machinery(f"worker failed: {rr.get('error')} {rr.get('stderr', '')[-300:]}"); return rep.finish()
        for j, x in enumerate(rr['results']):
            flat[k + j * nj] = x
    cases, info = [], []
    for m, x in zip(meta, flat):
        w = m['w']
        ctx = dict(gtf=w['ref'].gtf_lines(), chroms=w['ref'].chroms, argv=m['argv'], rmats=m['row'],
                   layouts=[nm for nm, _ in w['layouts']])
        key = env.canon_hash(ctx)
        if not x['ok'] or x['out']['status'] != 'ok':
            rep.case(1, None)
            rep.violation(f"cli:{w['ev']['type']}:{key}", f"parseRMATS command line failed: "
                          f"{x['out']['status'] if x['ok'] else x.get('error')}", dict(ctx, log=(x.get('out') or {}).get('log', '')[-800:]))
            continue
        recs = parse_gvf(x['out'].get('gvf', ''))
        tids = list(w['ref'].txs)
        records = []
        for rc in recs:
            if rc['txid'] not in tids or rc['kind'] not in ('Insertion', 'Deletion', 'Substitution'):
                rep.violation(f"malformed:{key}", f"parseRMATS wrote a record that names no transcript of the gene or is no "
                              f"insertion/deletion/substitution: {rc['line']}", ctx)
                continue
            records.append(dict(tx=tids.index(rc['txid']) + 1, kind=rc['kind'], start=rc['start'], end=rc['end'],
                                dstart=rc['dstart'], dend=rc['dend'], ref=rc['ref']))
        cases.append(dict(chrom=list(w['chrom']), gene=w['gene'],
                          txs=[dict(strand=w['strand'], exons=[list(e) for e in ex]) for _, ex in w['layouts']],
                          ev=w['ev'], ijc=m['ijc'], sjc=m['sjc'], minIjc=m['mi'], minSjc=m['ms'], records=records))
        info.append((key, ctx, [rc['line'] for rc in recs]))
    verdicts = tlc_cases('RmatsTrace', cases, work, 'rmats', rep)
    stats = {}
    for (key, ctx, lines), c, vs in zip(info, cases, verdicts):
        vs = [v.strip('"') for v in vs]
        rep.traces(1)
        rep.case(1, key if 'info_validated' in vs else None)
        if 'done' not in vs:
            rep.machinery(f"no verdict for rmats case {key}")
        t = c['ev']['type']
        for v in vs:
            if v.startswith('info_'):
                stats[v] = stats.get(v, 0) + 1
                if v != 'info_validated':
                    stats[f'{v}_{t}'] = stats.get(f'{v}_{t}', 0) + 1
                    if os.environ.get('VERIF_C16_DEBUG'):
                        print('DEBUG', v, t, c['gene']['strand'], ctx['layouts'], [x['exons'] for x in c['txs']], c['ev'], c['ijc'], c['sjc'], c['minIjc'], c['minSjc'], lines)
        stats[f'events_{t}'] = stats.get(f'events_{t}', 0) + 1
        if 'info_validated' in vs:
            stats[f'validated_{t}_strand{c["gene"]["strand"]}'] = stats.get(f'validated_{t}_strand{c["gene"]["strand"]}', 0) + 1
        bad = sorted(v for v in vs if v != 'done' and not v.startswith('info_'))
        if 'form_already_annotated_interjacent' in bad:
            bad.remove('form_already_annotated_interjacent')
            rep.violation('annotated_form_emitted_for_interjacent_layout',
                          f"parseRMATS {t} event on layouts {ctx['layouts']}: a record on a transcript carrying a form only up to interjacent "
                          f"exons produces a form an isoform already has; records: {lines}", dict(ctx, records=lines))
        if bad:
            rep.violation(f"rmats:{t}:{key}:{','.join(bad)}",
                          f"parseRMATS {t} event on layouts {ctx['layouts']} (strand {c['gene']['strand']}) violates {bad}; "
                          f"records: {lines}", dict(ctx, records=lines))
    rep.part('rmats', **stats)
    if info:
        rep.sample(dict(argv=info[0][1]['argv'], rmats=info[0][1]['rmats'], records=info[0][2]))
    # vacuity guard: the campaign must have validated records of every event type on both strands
    missing = [f'{t}/{s}' for t in TYPES for s in (1, -1) if not stats.get(f'validated_{t}_strand{s}')]
    if missing and not rep.viol:
        rep.machinery(f"vacuous run: no record validated for {missing}")
    return rep.finish()
