"""C19: filterFasta (spec/FilterTrace.tla)."""
import json, os
from vlib import env, tlc, report, jobs, mpg
from checks.cv import tlc_cases
from checks.c18 import World, write_pool


def entry_struct(w, e):
    label = e['label']
    f = label.split('|')
    if f[0].startswith('FUSION-'):
        t1 = f[0].split('-')[1].split(':')[0]; t2 = f[0].split('-')[2].split(':')[0]
        return dict(label=label, txs=[t1, t2], fusion=True, circ=False, splice=False)
    if f[0].startswith('CIRC-') or f[0].startswith('CI-'):
        return dict(label=label, txs=[f[0].split('-', 2)[1]], fusion=False, circ=True, splice=False)
    splice = any(any(y in x for y in ['SE', 'A5SS', 'A3SS', 'RI', 'MXE']) for x in f[1:-1]
                 if not x.startswith('ORF') and not x.startswith('ENSG'))
    is_novel = any(x.startswith('ORF') for x in f) and not any(x.split('-')[0] in ('SNV', 'INDEL', 'RES', 'MNV', 'SE') for x in f)
    return dict(label=label, txs=[f[0]], fusion=False, circ=False, splice=bool(splice) and not is_novel)


def check_c19(tier):
    rep = report.Report('C19', tier)
    rep.cov['rule'] = ("random pools as in C18 x expression tables (integer values around the cutoff) x cutoff x keep-all-coding / "
                       "keep-all-noncoding / keep-canonical x denylists x miscleavage ranges x enzyme; output of the real filterFasta "
                       "must equal the entry-wise Keep rule of FilterTrace.tla exactly, be idempotent and monotone in the cutoff; "
                       "non-trivial = some but not all entries kept")
    work = env.scratch('c19_')
    r = env.rng('c19')
    n = 70 if tier == 'quick' else 2000
    jl, meta = [], []
    for i in range(n):
        d = os.path.join(work, f'w{i}'); os.makedirs(d, exist_ok=True)
        w = World(r, d)
        pool = w.pool(r.randrange(6, 30))
        # make some peptides tryptic-looking so that miscleavage counts vary
        for p in pool:
            if r.random() < 0.6:
                s = list(p['seq'])
                for _ in range(r.randrange(1, 4)):
                    s[r.randrange(0, len(s))] = r.choice('KR')
                p['seq'] = ''.join(s)
        seen = set(); pool = [p for p in pool if not (p['seq'] in seen or seen.add(p['seq']))]
        vp = os.path.join(d, 'pool.fasta'); write_pool(vp, pool)
        idx = os.path.join(d, 'index')
        # tables on a log scale have negative values, and 0 is then a meaningful cutoff
        cutoff = r.choice([0, 0, 5, 10, 50, -2])
        exprs = {t.id: r.choice([0, cutoff - 1, cutoff, cutoff + 1, 100, -3, -1]) for t in w.txs}
        et = os.path.join(d, 'exprs.tsv')
        hdr = r.random() < 0.5
        with open(et, 'w') as f:
            if hdr:
                f.write('# comment line\n')
                f.write('gene\ttx\ttpm\n')
            for t, v in exprs.items():
                f.write(f'g\t{t}\t{v}\n')
        has_exprs = r.random() < 0.8
        deny = [p['seq'] for p in pool if r.random() < 0.25]
        df = None
        if r.random() < 0.6:
            df = os.path.join(d, 'deny.fasta'); mpg.write_fasta(df, [(f'd{k}', s) for k, s in enumerate(deny)] or [('x', 'AAAAAAA')])
        else:
            deny = []
        rule = r.choice(['trypsin', 'trypsin', 'lysc', 'asp-n'])
        mr = r.choice([None, (0, 0), (0, 1), (1, 2), (1, 1), (0, 2)])
        opts = dict(keepAllCoding=r.random() < 0.3, keepAllNoncoding=r.random() < 0.3, keepCanonical=r.random() < 0.4,
                    hasExprs=has_exprs, cutoff=cutoff, rule=rule,
                    miscMin=-1 if not mr or mr[0] is None else mr[0], miscMax=-1 if not mr or mr[1] is None else mr[1])
        def args(inp, out, cut):
            return dict(input_path=inp, output_path=out, index_dir=idx, annotation_gtf=None, proteome_fasta=None,
                        exprs_table=et if has_exprs else None, skip_lines=1 if hdr else 0, delimiter='\t',
                        tx_id_col='tx' if hdr else '2', quant_col='tpm' if hdr else '3',
                        quant_cutoff=float(cut) if has_exprs else None, keep_all_coding=opts['keepAllCoding'],
                        keep_all_noncoding=opts['keepAllNoncoding'], keep_canonical=opts['keepCanonical'],
                        denylist=df, miscleavages=None if not mr else f"{'' if mr[0] is None else mr[0]}:{'' if mr[1] is None else mr[1]}",
                        enzyme=rule)
        o1, o2, o3 = (os.path.join(d, x) for x in ('f1.fasta', 'f2.fasta', 'f3.fasta'))
        steps = [dict(op='genindex', args=dict(w.paths, output_dir=idx)),
                 dict(op='filter', args=args(vp, o1, cutoff)),
                 dict(op='filter', args=args(o1, o2, cutoff)),
                 dict(op='filter', args=args(vp, o3, cutoff + 7))]
        jl.append(dict(op='seq', steps=steps))
        coding = [t.id for t in w.txs if t.coding]
        meta.append(dict(w=w, pool=pool, opts=opts, exprs=exprs, coding=coding, deny=set(deny), mr=mr))
    nj = env.NCPU
    res = jobs.run_jobs('run_pool_ops.py', [dict(jobs=jl[k::nj]) for k in range(nj)], timeout=3000)
    flat = [None] * len(jl)
    for k, rr in enumerate(res):
        if not rr.get('ok'):
            rep.machinery(f"worker failed: {rr.get('error')} {rr.get('stderr', '')[-300:]}"); return rep.finish()
        for j, x in enumerate(rr['results']):
            flat[k + j * nj] = x
    cases, info = [], []
    for m, x in zip(meta, flat):
        st = x['steps']
        ctx = dict(pool=[(p['seq'], [e['label'] for e in p['entries']]) for p in m['pool']], opts=m['opts'], exprs=m['exprs'],
                   coding=m['coding'], denylist=sorted(m['deny']))
        key = env.canon_hash(ctx)
        if not all(s['ok'] for s in st):
            bad = [s.get('error') for s in st if not s['ok']]
            # "':'" with an open end is how the CLI documents the range; int('') is a usage error of the range syntax
            if m['mr'] and None in m['mr'] and any('invalid literal for int' in (b or '') for b in bad):
                rep.case(1, None)
                continue
            rep.case(1, key)
            rep.violation(f"crash:{key}", f"filterFasta raised {bad}", ctx)
            continue
        fa = lambda s: [dict(seq=q, labels=h.split(' ')) for h, q in s['fasta']]
        cases.append(dict(pool=[dict(seq=list(p['seq']), denied=p['seq'] in m['deny'],
                                     entries=[entry_struct(m['w'], e) for e in p['entries']]) for p in m['pool']],
                          coding=m['coding'], exprs=m['exprs'], opts=m['opts'],
                          output=[dict(seq=list(y['seq']), labels=y['labels']) for y in fa(st[1])],
                          again=[dict(seq=list(y['seq']), labels=y['labels']) for y in fa(st[2])],
                          stricter=[dict(seq=list(y['seq']), labels=y['labels']) for y in fa(st[3])]))
        nin = sum(len(p['entries']) for p in m['pool']); nout = sum(len(y['labels']) for y in fa(st[1]))
        info.append((key, ctx, 0 < nout < nin))
    verdicts = tlc_cases('FilterTrace', cases, work, 'filter', rep)
    for (key, ctx, nontriv), vs in zip(info, verdicts):
        vs = [v.strip('"') for v in vs]
        rep.traces(1); rep.case(1, key if nontriv else None)
        if 'done' not in vs:
            rep.machinery(f"no verdict for filter case {key}")
        bad = sorted(v for v in vs if v != 'done')
        if bad:
            rep.violation(f"filter:{key}:{','.join(bad)}", f"filterFasta violates {bad} (options {ctx['opts']})", ctx)
    if info:
        rep.sample(dict(options=info[0][1]['opts'], pool=info[0][1]['pool'][:4], exprs=info[0][1]['exprs']))
    return rep.finish()
