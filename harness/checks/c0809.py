"""C08 callNovelORF / C09 callAltTranslation against the definitional sets (Peptides.tla via AltOracle.tla)."""
import json, os, re
from vlib import env, tlc, report, jobs, refgen, cvgen
from checks.cv import tlc_cases, parse_sets

BIOTYPES = ['lncRNA', 'processed_pseudogene', 'TEC', 'misc_RNA', 'retained_intron_like']
DEFAULT_EXCL = None


def default_exclusion():
    global DEFAULT_EXCL
    if DEFAULT_EXCL is None:
        p = os.path.join(env.REPO, 'moPepGen', 'data', 'gencode_hs_exclusion_list.txt')
        DEFAULT_EXCL = [l.rstrip() for l in open(p)]
    return DEFAULT_EXCL


def novel_ref(r):
    b = refgen.Builder(r)
    for k in range(r.randrange(1, 5)):
        strand = r.choice([1, -1])
        if r.random() < 0.35:
            seq, cs, ce, secs, prot = refgen.make_coding_tx_seq(r, r.randrange(10, 24), r.randrange(3, 10), r.randrange(6, 16))
            b.add_gene(seq, strand, r.randrange(1, 3), True, cs, ce, secs, (), prot)
        else:
            seq = refgen.rand_noncoding(r, r.randrange(18, 100), atg_rate=0.06)
            b.add_gene(seq, strand, r.randrange(1, 4), False, biotype=r.choice(BIOTYPES))
    return b.finish()


def check_c08(tier):
    rep = report.Report('C08', tier)
    rep.cov['rule'] = ("random references mixing coding and non-coding genes of several biotypes x options (coding-novel-orf, "
                       "inclusion/exclusion biotype lists incl. the packaged default, min-tx-length, orf-assignment, w2f) x cleavage "
                       "settings; FASTA of the real callNovelORF must equal NovelOrf computed by TLC; ORF FASTA entries must be "
                       "ATG-initiated translations at the listed coordinates and be exactly the ORF ids used in peptide headers; "
                       "non-trivial = expected set non-empty")
    work = env.scratch('c08_')
    r = env.rng('c08')
    n = 220 if tier == 'quick' else 6000
    jl, meta = [], []
    for i in range(n):
        ref = novel_ref(r)
        d = os.path.join(work, f'n{i}')
        paths = ref.write(d)
        cfg = cvgen.rand_cfg(r, rules=('trypsin', 'trypsin', 'lysc', 'asp-n', 'glutamyl endopeptidase'))
        opts = dict(coding_novel_orf=r.random() < 0.4, w2f_reassignment=r.random() < 0.4,
                    orf_assignment=r.choice(['max', 'min']), min_tx_length=r.choice([21, 21, 40, 70]))
        incl = excl = None
        if r.random() < 0.3:
            incl = r.sample(BIOTYPES, r.randrange(1, 4))
        if r.random() < 0.4:
            excl = r.sample(BIOTYPES, r.randrange(1, 3))
        a = dict(paths); a.update(cvgen.cli_cfg(cfg)); a.update(opts)
        a.update(output_path=os.path.join(d, 'out.fasta'), output_orf=os.path.join(d, 'orf.fasta'),
                 inclusion_biotypes=None, exclusion_biotypes=None)
        if incl is not None:
            p = os.path.join(d, 'incl.txt'); open(p, 'w').write('\n'.join(incl) + '\n'); a['inclusion_biotypes'] = p
        if excl is not None:
            p = os.path.join(d, 'excl.txt'); open(p, 'w').write('\n'.join(excl) + '\n'); a['exclusion_biotypes'] = p
        # documented selection rule
        excl_eff = excl if excl is not None else default_exclusion()
        chrom = ref.chroms['chr1']
        sel = []
        for t in ref.txs.values():
            bt = ref.genes[t.gene].biotype
            if t.coding:
                if opts['coding_novel_orf']:
                    sel.append(t)
                continue
            if incl is not None and bt not in incl:
                continue
            if bt in excl_eff:
                continue
            if t.length() < opts['min_tx_length']:
                continue
            sel.append(t)
        jl.append(dict(cmd='callNovelORF', args=a))
        sc = cvgen.spec_cfg(cfg, w2f=opts['w2f_reassignment'], sect=False)
        meta.append(dict(ref=ref, sel=sel, cfg=cfg, opts=opts, incl=incl, excl=excl,
                         case=dict(kind='novel', seqs=[list(t.seq(chrom)) for t in sel], cfg=sc,
                                   proteome=cvgen.proteome_record(ref))))
    nj = env.NCPU
    res = jobs.run_jobs('run_cv_batch.py', [dict(jobs=jl[k::nj]) for k in range(nj)], timeout=3000)
    flat = [None] * len(jl)
    for k, rr in enumerate(res):
        if not rr.get('ok'):
            rep.machinery(f"worker failed: {rr.get('error')} {rr.get('stderr', '')[-300:]}"); return rep.finish()
        for j, x in enumerate(rr['results']):
            flat[k + j * nj] = x
    cases, keep = [], []
    for m, x in zip(meta, flat):
        key = env.canon_hash([m['ref'].gtf_lines(), m['ref'].chroms, m['cfg'], m['opts'], m['incl'], m['excl']])
        rec = dict(gtf=m['ref'].gtf_lines(), chroms=m['ref'].chroms, cfg=m['cfg'], opts=m['opts'], inclusion=m['incl'],
                   exclusion=m['excl'], selected=[t.id for t in m['sel']])
        if not x['ok']:
            rep.case(1, key); rep.violation(f"crash:{key}", f"callNovelORF raised {x['error']}", rec); continue
        c = dict(m['case'])
        c['observed'] = [list(s) for _, s in x['fasta']]
        # ORF FASTA -> structured; ids used by peptides
        idx = {t.id: k + 1 for k, t in enumerate(m['sel'])}
        orfs, listed, okfmt = [], set(), True
        for h, s in (x.get('orf_fasta') or []):
            f = h.split('|')
            try:
                st, en = f[3].split('-')
                listed.add((f[0], f[2]))
                if f[0] in idx:
                    orfs.append(dict(tx=idx[f[0]], start=int(st), end=int(en), seq=list(s)))
                else:
                    okfmt = False
            except Exception:
                okfmt = False
        used = set()
        for h, _ in x['fasta']:
            for e in h.split(' '):
                f = e.split('|')
                o = [y for y in f if re.fullmatch(r'ORF\d+', y)]
                if o:
                    used.add((f[0], o[0]))
        if not okfmt or not used <= listed:
            rep.violation(f"orfids:{key}", f"ORF FASTA lists {sorted(listed)[:6]} but peptide headers use {sorted(used)[:6]} "
                          f"(or an ORF of an unselected transcript is listed)", rec)
        c['orfs'] = orfs
        cases.append(c); keep.append((m, x, key, rec))
    verdicts = tlc_cases('AltOracle', cases, work, 'novel', rep)
    for (m, x, key, rec), vs in zip(keep, verdicts):
        rep.traces(1)
        nontriv = False
        for v in vs:
            if v.startswith('"orf_fasta"'):
                rep.violation(f"orffasta:{key}", "an ORF FASTA entry is not the ATG-initiated translation at its listed coordinates",
                              dict(rec, orf_fasta=x.get('orf_fasta')))
                continue
            kind, missing, extra = parse_sets(v)
            nontriv = nontriv or bool(x['fasta']) or bool(missing)
            if kind == 'diff':
                rep.violation(f"novel:{key}", f"callNovelORF output differs from the definitional ORF digest: missing {missing[:5]} "
                              f"extra {extra[:5]} (selected {rec['selected']}, options {m['opts']})",
                              dict(rec, missing=missing, extra=extra, observed=[s for _, s in x['fasta']]))
        if not vs:
            rep.machinery(f"no verdict for {key}")
        rep.case(1, key if nontriv else None)
    if keep:
        m, x, key, rec = keep[0]
        rep.sample(dict(options=m['opts'], selected=rec['selected'], fasta=x['fasta'][:6], orf_fasta=(x.get('orf_fasta') or [])[:3]))
    return rep.finish()


def light_sec_tx(r):
    """A coding transcript whose protein is rich in Gly / Ala / Ser and has two or three Sec codons a few residues apart: a
    Sec-truncated peptide can then be long enough and still lighter than --min-mw while the truncation at the next Sec is valid."""
    n = r.randrange(18, 30)
    aa = ['M'] + [r.choice('GGGAAS') if r.random() < 0.75 else r.choice('KRDELTVPQ') for _ in range(n - 1)]
    first = r.randrange(3, n - 10)
    idxs = [first]
    for _ in range(r.choice([1, 2])):
        nxt = idxs[-1] + r.randrange(2, 7)
        if nxt < n - 1:
            idxs.append(nxt)
    cds = refgen.encode(r, ''.join(aa))
    for i in idxs:
        cds = cds[:3 * i] + 'TGA' + cds[3 * i + 3:]; aa[i] = 'U'
    u5 = refgen.rand_dna(r, r.randrange(0, 10)); u3 = refgen.rand_dna(r, r.randrange(4, 16))
    seq = u5 + cds + r.choice(refgen.STOPS) + u3
    return seq, len(u5), len(u5) + len(cds) + 3, [len(u5) + 3 * i for i in idxs], ''.join(aa)


def check_c09(tier):
    rep = report.Report('C09', tier)
    rep.cov['rule'] = ("random coding references (0-2 annotated Sec codons, W-rich proteins, cds_start_NF / mRNA_end_NF, both strands, "
                       "non-coding genes mixed in) x the two flags x cleavage settings; FASTA of the real callAltTranslation must equal "
                       "AltTrans computed by TLC; every header must name SECT/W2F events; non-trivial = expected set non-empty")
    work = env.scratch('c09_')
    r = env.rng('c09')
    n = 220 if tier == 'quick' else 6000
    jl, meta = [], []
    for i in range(n):
        b = refgen.Builder(r)
        sect_endnf = False
        light = r.random() < 0.15
        for k in range(r.randrange(1, 4)):
            strand = r.choice([1, -1])
            if light and k == 0:
                seq, cs, ce, secs, prot = light_sec_tx(r)
                b.add_gene(seq, strand, r.randrange(1, 3), True, cs, ce, secs, (), prot)
            elif r.random() < 0.85:
                tags = []
                nsec = r.choice([0, 1, 1, 2])
                seq, cs, ce, secs, prot = refgen.make_coding_tx_seq(r, r.randrange(10, 28), r.randrange(0, 10), r.randrange(4, 16), sec=nsec)
                if r.random() < 0.2:
                    tags.append('mRNA_end_NF')
                    sect_endnf = sect_endnf or bool(secs)
                    seq = seq[:ce - 3 - r.randrange(0, 3)]; ce = len(seq)
                    secs = [x for x in secs if x + 6 <= len(seq)]     # a Sec codon is never the last codon of the model
                    prot = refgen.derive_protein(seq, cs, secs)
                if r.random() < 0.15:
                    tags.append('cds_start_NF')
                b.add_gene(seq, strand, r.randrange(1, 4), True, cs, ce, secs, tags, prot)
            else:
                b.add_gene(refgen.rand_noncoding(r, r.randrange(30, 80)), strand, 1, False)
        ref = b.finish()
        d = os.path.join(work, f'a{i}')
        paths = ref.write(d)
        cfg = cvgen.rand_cfg(r, rules=('trypsin', 'trypsin', 'lysc', 'asp-n', 'glutamyl endopeptidase'))
        flags = r.choice([(True, True), (True, False), (False, True)])
        if light:
            cfg['min_mw'] = r.choice(['400.00005', '500.00005', '700.00005']); cfg['min_len'] = r.randrange(3, 8)
            cfg['max_len'] = max(cfg['max_len'], cfg['min_len'] + 6)
            flags = (True, r.random() < 0.3)
        a = dict(paths); a.update(cvgen.cli_cfg(cfg))
        a.update(output_path=os.path.join(d, 'out.fasta'), selenocysteine_termination=flags[0], w2f_reassignment=flags[1])
        jl.append(dict(cmd='callAltTranslation', args=a))
        coding = [t for t in ref.txs.values() if t.coding]
        sc = cvgen.spec_cfg(cfg, sect=flags[0], w2f=flags[1])
        meta.append(dict(ref=ref, cfg=cfg, flags=flags, sect_endnf=sect_endnf,
                         case=dict(kind='alt', txs=[cvgen.tx_record(ref, t) for t in coding], cfg=sc,
                                   proteome=cvgen.proteome_record(ref))))
    nj = env.NCPU
    res = jobs.run_jobs('run_cv_batch.py', [dict(jobs=jl[k::nj]) for k in range(nj)], timeout=3000)
    flat = [None] * len(jl)
    for k, rr in enumerate(res):
        if not rr.get('ok'):
            rep.machinery(f"worker failed: {rr.get('error')} {rr.get('stderr', '')[-300:]}"); return rep.finish()
        for j, x in enumerate(rr['results']):
            flat[k + j * nj] = x
    cases, keep = [], []
    for m, x in zip(meta, flat):
        key = env.canon_hash([m['ref'].gtf_lines(), m['ref'].chroms, m['cfg'], m['flags']])
        rec = dict(gtf=m['ref'].gtf_lines(), chroms=m['ref'].chroms, cfg=m['cfg'], sect=m['flags'][0], w2f=m['flags'][1])
        if not x['ok']:
            rep.case(1, key); rep.violation(f"crash:{key}", f"callAltTranslation raised {x['error']}", rec); continue
        c = dict(m['case']); c['observed'] = [list(s) for _, s in x['fasta']]
        for h, s in x['fasta']:
            for e in h.split(' '):
                if not re.search(r'\|(SECT-\d+|W2F-\d+)(\||$)', e):
                    rep.violation(f"althdr:{key}", f"header entry {e} of {s} names no SECT/W2F event", dict(rec, entry=e, seq=s))
        cases.append(c); keep.append((m, x, key, rec))
    verdicts = tlc_cases('AltOracle', cases, work, 'alt', rep)
    for (m, x, key, rec), vs in zip(keep, verdicts):
        rep.traces(1)
        nontriv = False
        for v in vs:
            kind, missing, extra = parse_sets(v)
            nontriv = nontriv or bool(x['fasta']) or bool(missing)
            if kind == 'diff' and m['sect_endnf'] and not extra:
                rep.violation('sect_endnf', f"callAltTranslation misses SECT peptides {missing[:4]} of an mRNA_end_NF selenoprotein",
                              dict(rec, missing=missing, observed=[s for _, s in x['fasta']]))
            elif kind == 'diff':
                rep.violation(f"alt:{key}", f"callAltTranslation output differs from the definitional set: missing {missing[:5]} "
                              f"extra {extra[:5]} (sect={m['flags'][0]}, w2f={m['flags'][1]})",
                              dict(rec, missing=missing, extra=extra, observed=[s for _, s in x['fasta']]))
        if not vs:
            rep.machinery(f"no verdict for {key}")
        rep.case(1, key if nontriv else None)
    if keep:
        m, x, key, rec = keep[0]
        rep.sample(dict(flags=m['flags'], cfg=m['cfg'], fasta=x['fasta'][:6]))
    return rep.finish()
