"""C10: cleavage rule semantics and the canonical peptide pool (spec/Cleavage.tla)."""
import json, os, itertools
from vlib import env, tlc, report, mpg

RULES = ["arg-c", "asp-n", "bnps-skatole", "caspase 1", "caspase 2", "caspase 3", "caspase 4",
         "caspase 5", "caspase 6", "caspase 7", "caspase 8", "caspase 9", "caspase 10",
         "chymotrypsin high specificity", "chymotrypsin low specificity", "clostripain", "cnbr",
         "enterokinase", "factor xa", "formic acid", "glutamyl endopeptidase", "granzyme b",
         "hydroxylamine", "iodosobenzoic acid", "lysc", "lysn", "ntcb", "pepsin ph1.3", "pepsin ph2.0",
         "proline endopeptidase", "proteinase k", "staphylococcal peptidase i", "thermolysin", "thrombin",
         "trypsin"]

# residue-class representatives per rule: every residue the ExPASy rule mentions in some
# position class is represented, plus S as "any other residue" (my choice, not derived from the code)
ALPHA = {
    "arg-c": "RS", "asp-n": "DS", "bnps-skatole": "WS",
    "caspase 1": "FHDPSA", "caspase 2": "DVAPS", "caspase 3": "DMQPS", "caspase 4": "LEVDPS",
    "caspase 5": "LWEHDS", "caspase 6": "VEHIDPS", "caspase 7": "DEVPS", "caspase 8": "ILETDPS",
    "caspase 9": "LEHDS", "caspase 10": "IEADS",
    "chymotrypsin high specificity": "FWMPS", "chymotrypsin low specificity": "FWMHPYDS",
    "clostripain": "RS", "cnbr": "MS", "enterokinase": "DEKS", "factor xa": "ADGRS",
    "formic acid": "DS", "glutamyl endopeptidase": "ES", "granzyme b": "IEPDS",
    "hydroxylamine": "NGS", "iodosobenzoic acid": "WS", "lysc": "KS", "lysn": "KS", "ntcb": "CS",
    "pepsin ph1.3": "HPRFS", "pepsin ph2.0": "HPRFWS", "proline endopeptidase": "HPS",
    "proteinase k": "AS", "staphylococcal peptidase i": "ES", "thermolysin": "DAS",
    "thrombin": "AGWPRDS", "trypsin": "KRPWMS",
}
ALPHA_EXC = "KRPCDHYS"       # trypsin + trypsin_exception
FULL = "ACDEFGHIKLMNPQRSTVWYUX"
QUICK_RULES = ["trypsin", "lysc", "asp-n", "chymotrypsin high specificity", "pepsin ph1.3",
               "thrombin", "caspase 2", "proline endopeptidase"]


def groups_for(tier):
    gs = []
    rules = QUICK_RULES if tier == 'quick' else RULES
    for rule in rules:
        a = ALPHA[rule]
        L = 6 if tier == 'quick' else 7
        while len(a) ** L > (70000 if tier == 'quick' else 300000):
            L -= 1
        gs.append(dict(rule=rule, exc="", alpha=list(a), len=L, withRanges=True))
    # exception on: representatives and lengths chosen for the exception's 3-residue window
    gs.append(dict(rule="trypsin", exc="trypsin_exception", alpha=list(ALPHA_EXC),
                   len=5 if tier == 'quick' else 6, withRanges=True))
    # every rule over the full residue alphabet at short length (catches an edited class member)
    for rule in RULES:
        gs.append(dict(rule=rule, exc="", alpha=list(FULL), len=3, withRanges=True))
    if tier == 'thorough':
        for rule in RULES:
            if rule.startswith('caspase') or rule in ('thrombin', 'enterokinase', 'factor xa', 'granzyme b',
                                                      'pepsin ph1.3', 'pepsin ph2.0'):
                continue
            gs.append(dict(rule=rule, exc="", alpha=list(FULL), len=4, withRanges=True))
        gs.append(dict(rule="trypsin", exc="trypsin_exception", alpha=list(FULL), len=4, withRanges=True))
    return gs


def fill_group(g):
    """Ask the real code for sites and ranges of every string of the group."""
    from moPepGen.aa import AminoAcidSeqRecord
    from Bio.Seq import Seq
    a, L = g['alpha'], g['len']
    masks, ranges = [], []
    exc = g['exc'] or None
    for tup in itertools.product(a, repeat=L):
        s = ''.join(tup)
        rec = AminoAcidSeqRecord(Seq(s))
        sites = list(rec.iter_enzymatic_cleave_sites(g['rule'], exc))
        sites2 = rec.find_all_enzymatic_cleave_sites(g['rule'], exc)
        m = 0
        for k in sites:
            m |= 1 << (k - 1)
        if sites2 != sites:
            m = -1
        masks.append(m)
        try:
            rr = list(rec.iter_enzymatic_cleave_sites_with_range(g['rule'], exc))
            if [x for x, _ in rr] != sites:
                ranges.append([-1])
            else:
                ranges.append([st * 64 + en for _, (st, en) in rr])
        except Exception:
            ranges.append([-1])
    g['masks'] = masks
    g['ranges'] = ranges
    return g


def rule_semantics(rep, tier, work):
    mpg.ready()
    gs = [fill_group(g) for g in groups_for(tier)]
    # shard groups over JVMs (largest first)
    order = sorted(range(len(gs)), key=lambda i: -len(gs[i]['masks']))
    nshard = min(env.NCPU, len(gs)) if tier == 'thorough' else min(8, len(gs))
    shards = [[] for _ in range(nshard)]
    load = [0] * nshard
    for i in order:
        k = load.index(min(load)); shards[k].append(i); load[k] += len(gs[i]['masks'])
    from concurrent.futures import ThreadPoolExecutor

    def run_shard(k):
        f = os.path.join(work, f'cleave_{k}.json')
        json.dump([gs[i] for i in shards[k]], open(f, 'w'))
        return tlc.run('MC_Cleavage', 'MC_Cleavage.cfg', workers=max(1, env.NCPU // nshard),
                       envvars=dict(CASES_FILE=f), timeout=3400, heap='3g')
    with ThreadPoolExecutor(max_workers=nshard) as ex:
        results = list(ex.map(run_shard, range(nshard)))
    total = 0
    for k, r in enumerate(results):
        rep.tlc(f'MC_Cleavage shard {k}', r)
        if not r.ok:
            rep.machinery(f"MC_Cleavage shard {k}: rc={r.rc} {r.errors[:2]} {r.out[-500:]}")
            continue
        import re
        for s in r.printed:
            m = re.match(r'<<"V", (\d+), (\d+), "(\w+)">>', s)
            if not m:
                continue
            gi, n, clause = int(m.group(1)), int(m.group(2)), m.group(3)
            g = gs[shards[k][gi - 1]]
            digits = []
            x = n
            for _ in range(g['len']):
                digits.append(g['alpha'][x % len(g['alpha'])]); x //= len(g['alpha'])
            s_ = ''.join(reversed(digits))
            sites = [i + 1 for i in range(g['len']) if g['masks'][n] >= 0 and g['masks'][n] >> i & 1]
            what = (f"cleavage rule '{g['rule']}' exception '{g['exc']}' on '{s_}': clause {clause} fails; "
                    f"implementation sites={sites} ranges={g['ranges'][n]}")
            kind = 'impl' if clause.startswith('Impl') else 'spec'
            rep.violation(f"{kind}:{g['rule']}:{g['exc']}:{clause}:{s_}", what,
                          dict(rule=g['rule'], exc=g['exc'], seq=s_, clause=clause))
    for g in gs:
        total += len(g['masks'])
        nz = sum(1 for m in g['masks'] if m != 0)
        rep.case(len(g['masks']))
        for i, m in enumerate(g['masks']):
            if m != 0:
                rep._distinct.add((g['rule'], g['exc'], ''.join(g['alpha']), g['len'], i))
    rep.part('rule_semantics', strings=total, groups=len(gs),
             rules=sorted({g['rule'] for g in gs}), exhaustive_over="all strings of the stated length over each group's alphabet")
    g = gs[0]
    rep.sample(dict(group=dict(rule=g['rule'], exc=g['exc'], alpha=''.join(g['alpha']), len=g['len']),
                    string_number=7, implementation_site_mask=g['masks'][7], implementation_ranges=g['ranges'][7]))


def S(x):
    return list(x)


def rand_protein_seq(r):
    from vlib import refgen
    n = r.randrange(4, 36)
    body = refgen.rand_protein(r, n, kr_rate=0.25, extra='U' if r.random() < 0.2 else '')
    if r.random() < 0.3:
        # glycine / alanine rich: products whose mass is far below what their length suggests
        body = ''.join((r.choice('GGGGGAAS') if (c not in 'KR' or r.random() < 0.6) else c) for c in body)
    body = ''.join('L' if (c == 'I' and r.random() < 0.3) else c for c in body)
    if r.random() < 0.35:
        # a trypsin-exception motif, so that the exception changes the digest
        k = r.randrange(0, len(body) + 1)
        body = body[:k] + r.choice(['CKD', 'DKD', 'CKH', 'CKY', 'CRK', 'RRH', 'RRR']) + body[k:]
    if r.random() < 0.6:
        body = 'M' + body
    if r.random() < 0.2:
        body = 'X' * r.randrange(1, 3) + body
    if r.random() < 0.25:
        k = r.randrange(1, len(body))
        body = body[:k] + '*' + body[k:]
    if r.random() < 0.3:
        body = body + r.choice('KRDEFW')
    return body


def rand_cfg(r, rules):
    rule = r.choice(rules)
    exc = ''
    if rule == 'trypsin':
        exc = r.choice(['', 'trypsin_exception', 'auto'])
    elif r.random() < 0.1:
        exc = 'auto'
    lo = r.randrange(1, 8)
    return dict(rule=rule, exc=exc, misc=r.randrange(0, 4), min_len=lo, max_len=r.randrange(max(lo, 6), 26),
                min_mw=r.choice(['0.00005', '300.00005', '500.00005', '800.00005', f'{r.randrange(250, 1300)}.00005']))


def spec_cfg(p):
    exc = p['exc']
    if exc == 'auto':
        exc = 'trypsin_exception' if p['rule'] == 'trypsin' else ''
    whole, frac = p['min_mw'].split('.')
    mw5 = int(whole) * 100000 + int((frac + '00000')[:5])
    return dict(rule=p['rule'], exc=exc, misc=p['misc'], minLen=p['min_len'], maxLen=p['max_len'], minMw5=mw5)


def pool_level(rep, tier, work):
    from vlib import refgen, jobs
    r = env.rng('c10pool')
    n_refs = 60 if tier == 'quick' else 1200
    rules = QUICK_RULES + ['glutamyl endopeptidase', 'cnbr'] if tier == 'quick' else RULES
    jl = []
    per_job = 6 if tier == 'quick' else 40
    metas = []
    cur = []
    for i in range(n_refs):
        ref = refgen.random_reference(r, n_genes=r.randrange(1, 5), coding_p=1.0, max_exons=2)
        prots = []
        for t in ref.txs.values():
            t.protein = rand_protein_seq(r)
            if r.random() < 0.3:
                t.tags.append('cds_start_NF')
            prots.append(dict(seq=S(t.protein), startNF='cds_start_NF' in t.tags))
        d = os.path.join(work, f'ref{i}')
        paths = ref.write(d)
        c1, c2 = rand_cfg(r, rules), rand_cfg(r, rules)
        rich = [''.join(p['seq']) for p in prots if sum(ch in 'GA' for ch in p['seq']) > 0.5 * len(p['seq'])]
        if rich:
            # a mass limit just below L x (mass of free glycine) for the length L of an actual Gly/Ala-rich tryptic product:
            # its true mass (residue masses + water) lies below the limit
            import re as _re
            prods = [x for q in rich for x in _re.findall(r'[^KR*X]*[KR]', q) if len(x) >= 8]
            if prods:
                L = len(r.choice(prods))
                c1['rule'] = 'trypsin'; c1['exc'] = r.choice(['', 'auto'])
                c1['min_mw'] = f'{75 * L - 4}.00005'; c1['min_len'] = min(c1['min_len'], L); c1['max_len'] = max(c1['max_len'], L)
        if i % 2 == 1:
            # the second parameter set differs from the first in exactly one field
            if i % 4 == 1:
                c1['rule'] = 'trypsin'; c1['exc'] = r.choice(['', 'trypsin_exception', 'auto'])
            c2 = dict(c1)
            field = 'exc' if i % 4 == 1 else r.choice(['misc', 'min_len', 'max_len', 'min_mw'])
            if field == 'exc':
                c2['exc'] = '' if c1['exc'] in ('trypsin_exception', 'auto') else 'trypsin_exception'
            elif field == 'misc':
                c2['misc'] = c1['misc'] + 1
            elif field == 'min_len':
                c2['min_len'] = c1['min_len'] + 1; c2['max_len'] = max(c2['max_len'], c2['min_len'])
            elif field == 'max_len':
                c2['max_len'] = c1['max_len'] + 2
            else:
                c2['min_mw'] = r.choice([x for x in ['0.00005', '300.00005', '500.00005', '800.00005'] if x != c1['min_mw']])
        while c2 == c1:
            c2 = rand_cfg(r, rules)
        ops = [dict(op='fly', p=c1), dict(op='generate', p=c1), dict(op='load', p=c1), dict(op='update', p=c2),
               dict(op='load', p=c2), dict(op='load', p=c1), dict(op='fly', p=c2)]
        cur.append(dict(ref=paths, dir=os.path.join(d, 'index'), ops=ops))
        metas.append((prots, c1, c2, ref))
        if len(cur) == per_job:
            jl.append(dict(jobs=cur)); cur = []
    if cur:
        jl.append(dict(jobs=cur))
    results = jobs.run_jobs('run_index_ops.py', jl)
    flat = []
    for res in results:
        if not res.get('ok'):
            rep.machinery(f"index ops worker failed: {res.get('error')} {res.get('stderr', '')[-400:]}")
            return
        flat += res['results']
    cases, info = [], []
    for (prots, c1, c2, ref), ops in zip(metas, flat):
        st = [o['status'] for o in ops]
        if st != ['ok'] * 7:
            rep.violation(f"poolops:{env.canon_hash([c1, c2, [''.join(p['seq']) for p in prots]])}",
                          f"index operations did not all succeed: {st} {[o.get('msg') for o in ops if o['status'] != 'ok']}",
                          dict(c1=c1, c2=c2, proteins=[''.join(p['seq']) for p in prots]))
            continue
        cases.append(dict(proteins=prots, cfg=spec_cfg(c1), pools=[[S(x) for x in ops[k]['pool']] for k in (0, 2, 5)]))
        info.append((prots, c1))
        cases.append(dict(proteins=prots, cfg=spec_cfg(c2), pools=[[S(x) for x in ops[k]['pool']] for k in (4, 6)]))
        info.append((prots, c2))
    # validate with TLC, sharded
    nshard = min(env.NCPU, max(1, len(cases) // 20))
    from concurrent.futures import ThreadPoolExecutor

    def run_shard(k):
        f = os.path.join(work, f'pool_{k}.json')
        json.dump(tlc.jsonable(cases[k::nshard]), open(f, 'w'))
        return tlc.run('PoolTrace', 'PoolTrace.cfg', workers=1, envvars=dict(CASES_FILE=f), timeout=3400, heap='2g')
    with ThreadPoolExecutor(max_workers=nshard) as ex:
        rs = list(ex.map(run_shard, range(nshard)))
    import re
    nontriv = 0
    for k, rr in enumerate(rs):
        rep.tlc(f'PoolTrace shard {k}', rr)
        if not rr.ok:
            rep.machinery(f"PoolTrace shard {k}: rc={rr.rc} {rr.errors[:2]} {rr.out[-400:]}")
            continue
        seen = set()
        for s in rr.printed:
            m = re.match(r'<<"V", (\d+), "(\w+)"(.*)>>$', s)
            if not m:
                continue
            j = int(m.group(1)); gi = (j - 1) * nshard + k
            seen.add(j)
            prots, c = info[gi]
            rep.traces(1)
            key = ('pool', env.canon_hash([c, [''.join(p['seq']) for p in prots]]))
            rep.case(1, key if any(cases[gi]['pools'][0]) else None)
            if m.group(2) != 'ok':
                rep.violation(f"pool:{key[1]}", f"canonical pool differs from CanonicalPool for cfg={c} "
                              f"proteins={[(''.join(p['seq']), p['startNF']) for p in prots]}: {m.group(3)[:400]}",
                              dict(cfg=c, proteins=[(''.join(p['seq']), p['startNF']) for p in prots]))
        if len(seen) != len(cases[k::nshard]):
            rep.machinery(f"PoolTrace shard {k}: {len(seen)} verdicts for {len(cases[k::nshard])} cases")
    if cases:
        c = cases[0]
        rep.sample(dict(proteins=[(''.join(p['seq']), p['startNF']) for p in c['proteins']], cfg=c['cfg'],
                        pool_from_generateIndex=sorted(''.join(x) for x in c['pools'][1])[:12]))
    rep.part('pool_level', cases=len(cases), paths="on-the-fly load_references, generateIndex+load, updateIndex+load")


def check_c10(tier):
    rep = report.Report('C10', tier)
    rep.cov['rule'] = ("rule semantics: every string of length L over residue-class representatives of each rule "
                       "(and every string of length 3(4) over 22 residues) is a TLC state; the implementation's "
                       "sites and pattern ranges for that string must equal the spec's; non-trivial = the string "
                       "has at least one cleavage site; pool: random and structured proteomes, real pool builders "
                       "vs CanonicalPool")
    rep.cov['exhaustive'] = True
    work = env.scratch('c10_')
    rule_semantics(rep, tier, work)
    pool_level(rep, tier, work)
    return rep.finish()
