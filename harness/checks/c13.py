"""C13: GVF text format round trips (spec/GvfFormat.tla) and index-equivalent access (spec/GvfPool.tla)."""
import json, os, re, itertools
from vlib import env, tlc, report, jobs


def A(k, v):
    return [k, v, ''] if isinstance(v, int) else [k, -1, v]


def variant_universe(r, n_random):
    recs = []
    base = lambda tx='ENST0001.1': [A('TRANSCRIPT_ID', tx), A('GENOMIC_POSITION', 'chr1:100-101'), A('GENE_SYMBOL', 'GN1')]
    bases = 'ACGT'
    for start in (0, 1, 7, 120):
        for ref, alt in (('A', 'T'), ('G', 'C'), ('A', 'ATG'), ('A', 'AC'), ('ATG', 'A'), ('CT', 'C'), ('AT', 'GC'),
                         ('ATG', 'CCA'), ('AT', 'GCA')):
            mtype = 'SNV' if len(ref) == len(alt) == 1 else ('INDEL' if 1 in (len(ref), len(alt)) else 'MNV')
            recs.append(dict(gene='ENSG0001.1', start=start, end=start + len(ref),
                             id=f'{mtype}-{start + 1}-{ref}-{alt}', ref=list(ref), alt=list(alt), mtype=mtype, kind=mtype,
                             attrs=base()))
        # RNA editing site: written like an SNV, with a STRAND attribute
        recs.append(dict(gene='ENSG0001.1', start=start, end=start + 1, id=f'RES-{start + 1}-A-G', ref=['A'], alt=['G'],
                         mtype='RNAEditingSite', kind='SNV',
                         attrs=[A('TRANSCRIPT_ID', 'ENST0001.1'), A('GENOMIC_POSITION', 'chr1:5'), A('STRAND', '1')]))
        for acc in (0, 3, 250):
            recs.append(dict(gene='ENSG0001.1', start=start, end=start + 1,
                             id=f'FUSION-ENST0001.1:{start}-ENST0002.1:{acc}', ref=['C'], alt=list('<FUSION>'),
                             mtype='Fusion', kind='Fusion',
                             attrs=[A('TRANSCRIPT_ID', 'ENST0001.1'), A('GENE_SYMBOL', 'GN1'), A('GENOMIC_POSITION', 'chr1:9-9'),
                                    A('ACCEPTER_GENE_ID', 'ENSG0002.1'), A('ACCEPTER_TRANSCRIPT_ID', 'ENST0002.1'),
                                    A('ACCEPTER_SYMBOL', 'GN2'), A('ACCEPTER_POSITION', acc),
                                    A('ACCEPTER_GENOMIC_POSITION', 'chr1:700-700')]))
        for ln in (1, 5, 40):
            recs.append(dict(gene='ENSG0001.1', start=start, end=start + ln, id=f'SE-{start + 1}', ref=['G'],
                             alt=list('<DEL>'), mtype='Deletion', kind='Deletion',
                             attrs=[A('TRANSCRIPT_ID', 'ENST0001.1'), A('START', start), A('END', start + ln),
                                    A('GENE_SYMBOL', 'GN1'), A('GENOMIC_POSITION', 'chr1:5:9')]))
            recs.append(dict(gene='ENSG0001.1', start=start, end=start + 1, id=f'RI-{start + 1}', ref=['G'],
                             alt=list('<INS>'), mtype='Insertion', kind='Insertion',
                             attrs=[A('TRANSCRIPT_ID', 'ENST0001.1'), A('DONOR_START', start + 1), A('DONOR_END', start + 1 + ln),
                                    A('DONOR_GENE_ID', 'ENSG0001.1'), A('COORDINATE', 'gene'), A('GENE_SYMBOL', 'GN1'),
                                    A('GENOMIC_POSITION', 'chr1:5:9')]))
            recs.append(dict(gene='ENSG0001.1', start=start, end=start + ln, id=f'MXE-{start + 1}-{start + 60}', ref=['T'],
                             alt=list('<SUB>'), mtype='Substitution', kind='Substitution',
                             attrs=[A('TRANSCRIPT_ID', 'ENST0001.1'), A('START', start), A('END', start + ln),
                                    A('DONOR_START', start + 60), A('DONOR_END', start + 60 + ln + 2),
                                    A('DONOR_GENE_ID', 'ENSG0001.1'), A('COORDINATE', 'gene'), A('GENE_SYMBOL', 'GN1'),
                                    A('GENOMIC_POSITION', 'chr1:5:9-chr1:70:80')]))
    for _ in range(n_random):
        start = r.randrange(0, 5000)
        lr, la = r.choice([(1, 1), (1, r.randrange(2, 8)), (r.randrange(2, 8), 1), (r.randrange(2, 5), r.randrange(2, 5))])
        ref = ''.join(r.choice(bases) for _ in range(lr)); alt = ''.join(r.choice(bases) for _ in range(la))
        mtype = 'SNV' if lr == la == 1 else ('INDEL' if 1 in (lr, la) else 'MNV')
        recs.append(dict(gene=f'ENSG{r.randrange(1, 9):04d}.{r.randrange(1, 4)}', start=start, end=start + lr,
                         id=f'{mtype}-{start + 1}-{ref}-{alt}', ref=list(ref), alt=list(alt), mtype=mtype, kind=mtype,
                         attrs=base(f'ENST{r.randrange(1, 99):04d}.1')))
    return recs


def circ_universe(r, n_random):
    cs = []
    for start in (0, 17, 400):
        for offs, lens, intr in (([0], [30], []), ([0, 40], [20, 25], []), ([0], [33], [1]), ([0, 30, 80], [10, 12, 9], []),
                                 ([0, 30], [10, 12], [2])):
            for gpos in ('chr1:100:200', ''):
                cs.append(dict(gene='ENSG0001.1', start=start, id=f"{'CI' if intr else 'CIRC'}-ENST0001.1-{start}:{start + offs[-1] + lens[-1]}",
                               offsets=offs, lengths=lens, introns=intr, tx='ENST0001.1', symbol='GN1', gpos=gpos))
    for _ in range(n_random):
        n = r.randrange(1, 5)
        offs, lens, cur = [], [], 0
        for k in range(n):
            offs.append(cur); L = r.randrange(4, 60); lens.append(L); cur += L + r.randrange(1, 30)
        start = r.randrange(0, 3000)
        cs.append(dict(gene='ENSG0002.1', start=start, id=f'CIRC-ENST0002.1-{start}:{start + offs[-1] + lens[-1]}', offsets=offs,
                       lengths=lens, introns=[], tx='ENST0002.1', symbol='GN2', gpos=f'chr2:{start + 9}:{start + 99}'))
        if n >= 2 and r.random() < 0.6:
            # fragments in descending gene order, as parseCIRCexplorer writes them for minus-strand genes: the record's position is
            # the first listed fragment and the other offsets are negative
            top = start + offs[-1]
            roffs = [start + o - top for o in reversed(offs)]
            cs.append(dict(gene='ENSG0003.1', start=top, id=f'CIRC-ENST0003.1-{start}:{start + offs[-1] + lens[-1]}', offsets=roffs,
                           lengths=list(reversed(lens)), introns=[], tx='ENST0003.1', symbol='GN3', gpos=f'chr3:{start + 9}:{start + 99}'))
    cs.append(dict(gene='ENSG0003.1', start=700, id='CIRC-ENST0003.1-400:800', offsets=[0, -300], lengths=[100, 100], introns=[],
                   tx='ENST0003.1', symbol='GN3', gpos='chr3:1:2'))
    return cs


def pool_scenarios(r, tier):
    scs = []
    txs = ['T1', 'T2', 'T3']
    # every grouping: all tx label sequences (file 1: length 0..4, file 2: length 0..2), with index variants
    L1 = 4 if tier == 'thorough' else 3
    lay = []
    for n1 in range(0, L1 + 1):
        for s1 in itertools.product(txs, repeat=n1):
            for n2 in range(0, 3):
                for s2 in itertools.product(txs, repeat=n2):
                    if n1 + n2 == 0:
                        continue
                    lay.append((s1, s2))
    if tier == 'quick':
        r.shuffle(lay); lay = lay[:260]
    for k, (s1, s2) in enumerate(lay):
        ops = []
        rid = 0
        for f, s in ((1, s1), (2, s2)):
            for t in s:
                rid = rid % 9 + 1
                ops.append(dict(op='append', f=f, tx=t, id=rid))
        mode = k % 4
        if mode in (1, 3) and s1:
            ops.append(dict(op='index', f=1))
        if mode in (2, 3) and s2:
            ops.append(dict(op='index', f=2))
        ops.append(dict(op='open')); ops.append(dict(op='close'))
        # edit after index, reopen
        if mode == 1 and s1:
            ops += [dict(op='append', f=1, tx=r.choice(txs), id=5), dict(op='open'), dict(op='close'),
                    dict(op='index', f=1), dict(op='open'), dict(op='close')]
        if mode == 3 and len(s1) > 1:
            ops += [dict(op='drop', f=1), dict(op='open'), dict(op='close')]
        if mode == 2 and s2 and len(s2) > 1:
            ops += [dict(op='drop', f=2), dict(op='open'), dict(op='close'), dict(op='index', f=2), dict(op='open')]
        scs.append(dict(ops=ops, unicode=(k % 5) if (k % 5) in (1, 2) else 0, nonl=1 if k % 3 == 1 else 0))   # non-ASCII header path / attribute values
    return scs


def check_c13(tier):
    rep = report.Report('C13', tier)
    rep.cov['rule'] = ("format: structured + random records of every kind (SNV, INDEL, MNV, RES, Fusion, Insertion, Deletion, "
                       "Substitution, circRNA/ciRNA) built in memory as the parsers build them, written, re-read and re-written by "
                       "the real code; tokens compared with GvfFormat.Line/Parse; access path: every grouping of <=4(+2) records "
                       "over 3 transcripts in 2 files with index/edit histories, validated against GvfPool; non-trivial = "
                       "record with position-shifted attributes, or scenario with an interleaved transcript or an edit")
    work = env.scratch('c13_')
    r = env.rng('c13')
    # design model
    mc = tlc.run('GvfPool', 'MC_GvfPool.cfg', timeout=1800)
    rep.tlc('MC_GvfPool.cfg', mc)
    if mc.violation:
        rep.violation(f'model:{mc.violation}', f"GvfPool design model violates {mc.violation}", dict(tail=mc.out[-1500:]))
    elif not mc.ok:
        rep.machinery(f"TLC failed on MC_GvfPool.cfg: {mc.errors[:2]} {mc.out[-300:]}")
    variants = variant_universe(r, 150 if tier == 'quick' else 3000)
    circs = circ_universe(r, 40 if tier == 'quick' else 800)
    pools = pool_scenarios(r, tier)
    nj = env.NCPU
    jl = [dict(variants=variants[k::nj], circs=circs[k::nj], pools=pools[k::nj], dir=os.path.join(work, f'w{k}'))
          for k in range(nj)]
    for j in jl:
        os.makedirs(j['dir'], exist_ok=True)
    results = jobs.run_jobs('run_gvf_case.py', jl, timeout=3000)
    cases, info, traces, tinfo = [], [], [], []
    for k, res in enumerate(results):
        if not res.get('ok'):
            rep.machinery(f"gvf worker failed: {res.get('error')} {res.get('stderr', '')[-400:]}")
            return rep.finish()
        for rec, o in zip(variants[k::nj], res['variants']):
            key = env.canon_hash(rec)
            if not o['ok']:
                rep.case(1, key)
                rep.violation(f"fmt:{key}", f"variant record could not be written/re-read: {o['error']}", rec)
                continue
            spec_rec = dict(gene=rec['gene'], start=rec['start'], end=rec['end'], id=rec['id'], ref=rec['ref'],
                            alt=rec['alt'], kind=rec['kind'], attrs=rec['attrs'])
            l1, l2 = dict(o['line1']), dict(o['line2'])
            qf1, qf2 = l1.pop('qual_filter'), l2.pop('qual_filter')
            if qf1 != ['.', '.'] or qf2 != ['.', '.']:
                rep.violation(f"fmt:{key}:qual", f"QUAL/FILTER columns are {qf1}", rec)
            cases.append(dict(kind='variant', rec=spec_rec, line1=l1, parsed=o['parsed'], line2=l2, text_same=o['text_same']))
            info.append((key, rec, o.get('text')))
        for c, o in zip(circs[k::nj], res['circs']):
            key = env.canon_hash(c)
            if not o['ok']:
                rep.case(1, key)
                rep.violation(f"fmt:{key}", f"circRNA record could not be written/re-read: {o['error']}", c)
                continue
            cases.append(dict(kind='circ', rec=c, line1=o['line1'], parsed=o['parsed'], line2=o['line2'],
                              text_same=o['text_same'], fragments=o['fragments']))
            info.append((key, c, o.get('text')))
        for sc, o in zip(pools[k::nj], res['pools']):
            if o['error']:
                rep.case(1, env.canon_hash(sc))
                rep.violation(f"pool:{env.canon_hash(sc)}", f"GVF pool scenario raised: {o['error']}", sc)
                continue
            traces.append(dict(events=o['events'])); tinfo.append(sc)
    # format level
    f = os.path.join(work, 'fmt.json')
    nshard = 8
    from concurrent.futures import ThreadPoolExecutor

    def run_shard(k):
        fk = os.path.join(work, f'fmt_{k}.json')
        json.dump(tlc.jsonable(cases[k::nshard]), open(fk, 'w'))
        return tlc.run('GvfTrace', 'GvfTrace.cfg', workers=1, envvars=dict(CASES_FILE=fk), timeout=3000, heap='2g')
    with ThreadPoolExecutor(max_workers=nshard) as ex:
        rs = list(ex.map(run_shard, range(nshard)))
    for k, rr in enumerate(rs):
        rep.tlc(f'GvfTrace shard {k}', rr)
        if not rr.ok:
            rep.machinery(f"GvfTrace shard {k}: rc={rr.rc} {rr.errors[:2]} {rr.out[-500:]}")
            continue
        done, bad = set(), {}
        for s in rr.printed:
            m = re.match(r'<<"V", (\d+), "(\w+)">>$', s)
            if m:
                (done.add(int(m.group(1))) if m.group(2) == 'done' else bad.setdefault(int(m.group(1)), set()).add(m.group(2)))
        if len(done) != len(cases[k::nshard]):
            rep.machinery(f"GvfTrace shard {k}: {len(done)} verdicts for {len(cases[k::nshard])} cases")
        for j in done:
            key, rec, text = info[(j - 1) * nshard + k]
            shifted = 'attrs' in rec and any(a[0] in ('START', 'DONOR_START', 'ACCEPTER_POSITION') for a in rec['attrs'])
            rep.case(1, key if (shifted or 'offsets' in rec) else None)
            rep.traces(1)
            if j in bad:
                rep.violation(f"fmt:{key}:{','.join(sorted(bad[j]))}",
                              f"GVF round trip of {rec.get('mtype', 'circRNA')} record fails clauses {sorted(bad[j])}; text written: {text}",
                              dict(rec=rec, text=text))
    # access-path level
    tf = os.path.join(work, 'pooltraces.json')
    json.dump(tlc.jsonable(traces), open(tf, 'w'))
    rr = tlc.run('GvfPoolTrace', 'GvfPoolTrace.cfg', workers=1, envvars=dict(TRACE_FILE=tf), timeout=3000)
    rep.tlc('GvfPoolTrace', rr)
    if not rr.ok:
        rep.machinery(f"GvfPoolTrace: rc={rr.rc} {rr.errors[:2]} {rr.out[-500:]}")
    else:
        verdict = {}
        for s in rr.printed:
            m = re.match(r'<<"V", (\d+), "(\w+)">>$', s)
            if m:
                j = int(m.group(1))
                if m.group(2) != 'ok':
                    verdict[j] = m.group(2)
                else:
                    verdict.setdefault(j, 'ok')
        for j, sc in enumerate(tinfo, 1):
            ops = sc['ops']
            seqs = {}
            for o in ops:
                if o['op'] == 'append':
                    seqs.setdefault(o['f'], []).append(o['tx'])
            interleaved = any(len(s) >= 3 and any(s[a] == s[c] != s[b] for a in range(len(s)) for b in range(a + 1, len(s))
                                                  for c in range(b + 1, len(s))) for s in seqs.values())
            edited = sum(1 for o in ops if o['op'] == 'open') > 1
            rep.case(1, env.canon_hash(ops) if (interleaved or edited) else None)
            rep.traces(1)
            v = verdict.get(j, 'rejected')
            if v != 'ok':
                evs = traces[j - 1]['events']
                rep.violation(f"pool:{env.canon_hash(ops)}",
                              f"GVF pool history is not a behaviour of GvfPool ({v}): events="
                              f"{[(e['event'], e.get('f'), e.get('tx'), e.get('status'), e.get('table')) for e in evs]}",
                              dict(ops=ops, events=evs))
    if cases:
        rep.sample(dict(record=info[5][1], text_written=info[5][2]))
    if traces:
        rep.sample(dict(pool_history=traces[min(7, len(traces) - 1)]['events']))
    series_view(rep, tier, work)
    return rep.finish()


# ---- series view: what pool[tx] hands to callVariant vs a linear scan (spec/GvfSeriesTrace.tla) ------------------------------

def series_worlds(r, n, work):
    """Real references with small variants, alternative-splicing records (also two insertions on one anchor with different donor
    segments), fusions and circRNAs, spread over several GVF files of each kind, some lines present in two files."""
    from vlib import refgen, cvgen
    from checks.cv import tlc_cases  # noqa: F401
    worlds = []
    for wi in range(n):
        b = refgen.Builder(r)
        for _ in range(r.randrange(2, 4)):
            if r.random() < 0.6:
                seq, cs, ce, secs, prot = refgen.make_coding_tx_seq(r, r.randrange(20, 34), r.randrange(3, 10), r.randrange(6, 16))
                b.add_gene(seq, r.choice([1, -1]), r.randrange(2, 5), True, cs, ce, secs, (), prot, intron=(9, 20))
            else:
                b.add_gene(refgen.rand_noncoding(r, r.randrange(70, 120)), r.choice([1, -1]), r.randrange(2, 5), False, intron=(9, 20))
        ref = b.finish()
        d = os.path.join(work, f'sv{wi}'); paths = ref.write(d)
        txs = list(ref.txs.values())
        recs = {'small': [], 'as': [], 'fusion': [], 'circ': []}     # kind -> [(tx, key, line)]
        for t in txs:
            for v in cvgen.random_small_variants(r, ref, t, r.randrange(0, 4), kinds=('SNV', 'INS', 'DEL')):
                line = '\t'.join([v['gene'], str(v['gstart'] + 1), v['id'], v['ref'], v['alt'], '.', '.',
                                   f"TRANSCRIPT_ID={v['tx']};GENE_SYMBOL=S;GENOMIC_POSITION=chr1:{v['gstart']}"])
                recs['small'].append((t.id, ('small', v['id']), line))
            for a in cvgen.as_records(r, ref, t, n=r.choice([0, 1, 2]), min_tx_pos=(t.cds_start + 3) if t.coding else 3):
                m = a['meta']
                recs['as'].append((t.id, ('as', m['id'], m['kind'], m['start'], m['end'], m['dstart'], m['dend']), a['line']))
                if m['kind'] == 'Insertion' and m['dend'] - m['dstart'] >= 4 and r.random() < 0.7:
                    # a second insertion on the same anchor, other donor segment
                    db2 = m['dstart'] + r.randrange(1, m['dend'] - m['dstart'])
                    line2 = a['line'].replace(f"DONOR_END={m['dend']};", f"DONOR_END={db2};").replace(m['id'], f"RI_{m['dstart']}-{db2}")
                    recs['as'].append((t.id, ('as', f"RI_{m['dstart']}-{db2}", m['kind'], m['start'], m['end'], m['dstart'], db2), line2))
        if len(txs) >= 2:
            for _ in range(r.randrange(0, 3)):
                dt, at = r.sample(txs, 2)
                lb = dt.tx2g(r.randrange(((dt.cds_start + 3) if dt.coding else 3), dt.length() - 1)); rb = at.tx2g(r.randrange(1, at.length() - 1))
                fid, line = cvgen.fusion_line(ref, dt, lb, at, rb)
                recs['fusion'].append((dt.id, ('fusion', fid), line))
        for t in txs:
            if r.random() < 0.5:
                k0 = r.randrange(len(t.exons)); k1 = r.randrange(k0, len(t.exons))
                cid, line = cvgen.circ_line(ref, t, list(range(k0, k1 + 1)))
                recs['circ'].append((t.id, ('circ', cid), line))
        heads = dict(small=cvgen.GVF_HEAD.format(parser='parseVEP', source='gSNP'),
                     fusion=cvgen.GVF_HEAD.format(parser='parseSTARFusion', source='Fusion'),
                     circ=cvgen.GVF_HEAD.format(parser='parseCIRCexplorer', source='circRNA'))
        heads['as'] = cvgen.AS_HEAD.format(parser='parseRMATS', source='AltSplicing')
        files = []       # (path, [(tx, key)])
        for kind, L in recs.items():
            if not L:
                continue
            # de-duplicate generated records, then split over 1-2 files; some lines go to both
            seen, uniq = set(), []
            for x in L:
                if x[1] not in seen:
                    seen.add(x[1]); uniq.append(x)
            nf = 1 if len(uniq) < 2 else r.choice([1, 2, 2])
            parts = [[] for _ in range(nf)]
            for x in uniq:
                k = r.randrange(nf); parts[k].append(x)
                if nf == 2 and r.random() < 0.25:
                    parts[1 - k].append(x)
            for k, part in enumerate(parts):
                if not part:
                    continue
                # records of one transcript are contiguous and files are ordered by gene, as the parsers write them
                part.sort(key=lambda x: (x[2].split('\t')[0], x[0], int(x[2].split('\t')[1])))
                pth = os.path.join(d, f'{kind}{k}.gvf')
                with open(pth, 'w') as fh:
                    fh.write(heads[kind] + '\n'.join(x[2] for x in part) + '\n')
                files.append((pth, [(x[0], x[1]) for x in part]))
        if files:
            r.shuffle(files)
            worlds.append(dict(paths=paths, files=files, index=[r.random() < 0.5 for _ in files], gtf=ref.gtf_lines(), chroms=ref.chroms))
    return worlds


def series_key(g):
    a = g['attrs']
    if g['slot'] == 'circ':
        return ('circ', g['id'])
    if g['type'] == 'Fusion':
        return ('fusion', g['id'])
    if g['type'] in ('Insertion', 'Deletion', 'Substitution'):
        return ('as', g['id'])
    return ('small', g['id'])


def series_view(rep, tier, work):
    from checks.cv import tlc_cases
    r = env.rng('c13-series')
    worlds = series_worlds(r, 24 if tier == 'quick' else 500, work)
    nj = env.NCPU
    jl = [dict(paths=w['paths'], files=[f for f, _ in w['files']], index=w['index']) for w in worlds]
    res = jobs.run_jobs('run_gvf_series.py', [dict(jobs=jl[k::nj]) for k in range(nj)], timeout=3000)
    flat = [None] * len(jl)
    for k, rr in enumerate(res):
        if not rr.get('ok'):
            rep.machinery(f"series worker failed: {rr.get('error')} {rr.get('stderr', '')[-300:]}"); return
        for j, x in enumerate(rr['results']):
            flat[k + j * nj] = x
    cases, info = [], []
    for w, x in zip(worlds, flat):
        ctx = dict(gtf=w['gtf'], chroms=w['chroms'], files=[[os.path.basename(f), [list(map(str, k)) for _, k in L]] for f, L in w['files']],
                   indexed=w['index'])
        if not x['ok']:
            rep.violation(f"series-crash:{env.canon_hash(ctx)}", f"reading the per-transcript series raised: {x['error']}", dict(ctx, tb=x.get('tb')))
            continue
        # record text identity: (kind, id) - the generator gives distinct records distinct ids (two insertions on one anchor with
        # different donor segments have different ids)
        rid = {}
        for f, L in w['files']:
            for tx, key in L:
                rid.setdefault((tx, key[:2]), len(rid) + 1)
        files = [[[tx, rid[(tx, key[:2])]] for tx, key in L] for f, L in w['files']]
        got = [[tx, [rid.get((tx, series_key(g)), 0) for g in L]] for tx, L in sorted(x['out'].items())]
        cases.append(dict(files=files, got=got))
        info.append(ctx)
    verdicts = tlc_cases('GvfSeriesTrace', cases, work, 'series', rep)
    nrec = ninfo = 0
    for c, ctx, vs in zip(cases, info, verdicts):
        vs = [v.strip('"') for v in vs]
        dup = len({tuple(x) for f in c['files'] for x in f}) < sum(len(f) for f in c['files'])
        rep.traces(1); rep.case(1, env.canon_hash(ctx['files']) if dup or len(c['files']) > 2 else None)
        nrec += sum(len(f) for f in c['files'])
        if 'done' not in vs:
            rep.machinery('no verdict for a series case')
        ninfo += sum(1 for v in vs if v.startswith('info_'))
        bad = sorted(v for v in vs if v != 'done' and not v.startswith('info_'))
        if bad:
            rep.violation(f"series:{env.canon_hash(ctx)}:{','.join(bad)}",
                          f"per-transcript record sets read through the pool differ from a linear scan of the files: {bad}", ctx)
    rep.part('series_view', worlds=len(cases), record_lines=nrec, worlds_with_a_record_handed_out_twice=ninfo)
