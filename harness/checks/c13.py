"""C13: GVF text format round trips (spec/GvfFormat.tla) and index-equivalent access (spec/GvfPool.tla)."""
import json, os, re, itertools
from vlib import env, tlc, report, jobs


def A(k, v):
    return [k, v, ''] if isinstance(v, int) else [k, -1, v]


def variant_universe(r, n_random):
    recs = []
    base = lambda tx='ENST0001.1': [A('TRANSCRIPT_ID', tx), A('GENOMIC_POSITION', 'chr1:100-101'), A('GENE_SYMBOL', 'GN1')]
    bases = 'ACGT'
    for start in (0, 1, 7, 120):
        for ref, alt in (('A', 'T'), ('G', 'C'), ('A', 'ATG'), ('A', 'AC'), ('ATG', 'A'), ('CT', 'C'), ('AT', 'GC'),
                         ('ATG', 'CCA'), ('AT', 'GCA')):
            mtype = 'SNV' if len(ref) == len(alt) == 1 else ('INDEL' if 1 in (len(ref), len(alt)) else 'MNV')
            recs.append(dict(gene='ENSG0001.1', start=start, end=start + len(ref),
                             id=f'{mtype}-{start + 1}-{ref}-{alt}', ref=list(ref), alt=list(alt), mtype=mtype, kind=mtype,
                             attrs=base()))
        # RNA editing site: written like an SNV, with a STRAND attribute
        recs.append(dict(gene='ENSG0001.1', start=start, end=start + 1, id=f'RES-{start + 1}-A-G', ref=['A'], alt=['G'],
                         mtype='RNAEditingSite', kind='SNV',
                         attrs=[A('TRANSCRIPT_ID', 'ENST0001.1'), A('GENOMIC_POSITION', 'chr1:5'), A('STRAND', '1')]))
        for acc in (0, 3, 250):
            recs.append(dict(gene='ENSG0001.1', start=start, end=start + 1,
                             id=f'FUSION-ENST0001.1:{start}-ENST0002.1:{acc}', ref=['C'], alt=list('<FUSION>'),
                             mtype='Fusion', kind='Fusion',
                             attrs=[A('TRANSCRIPT_ID', 'ENST0001.1'), A('GENE_SYMBOL', 'GN1'), A('GENOMIC_POSITION', 'chr1:9-9'),
                                    A('ACCEPTER_GENE_ID', 'ENSG0002.1'), A('ACCEPTER_TRANSCRIPT_ID', 'ENST0002.1'),
                                    A('ACCEPTER_SYMBOL', 'GN2'), A('ACCEPTER_POSITION', acc),
                                    A('ACCEPTER_GENOMIC_POSITION', 'chr1:700-700')]))
        for ln in (1, 5, 40):
            recs.append(dict(gene='ENSG0001.1', start=start, end=start + ln, id=f'SE-{start + 1}', ref=['G'],
                             alt=list('<DEL>'), mtype='Deletion', kind='Deletion',
                             attrs=[A('TRANSCRIPT_ID', 'ENST0001.1'), A('START', start), A('END', start + ln),
                                    A('GENE_SYMBOL', 'GN1'), A('GENOMIC_POSITION', 'chr1:5:9')]))
            recs.append(dict(gene='ENSG0001.1', start=start, end=start + 1, id=f'RI-{start + 1}', ref=['G'],
                             alt=list('<INS>'), mtype='Insertion', kind='Insertion',
                             attrs=[A('TRANSCRIPT_ID', 'ENST0001.1'), A('DONOR_START', start + 1), A('DONOR_END', start + 1 + ln),
                                    A('DONOR_GENE_ID', 'ENSG0001.1'), A('COORDINATE', 'gene'), A('GENE_SYMBOL', 'GN1'),
                                    A('GENOMIC_POSITION', 'chr1:5:9')]))
            recs.append(dict(gene='ENSG0001.1', start=start, end=start + ln, id=f'MXE-{start + 1}-{start + 60}', ref=['T'],
                             alt=list('<SUB>'), mtype='Substitution', kind='Substitution',
                             attrs=[A('TRANSCRIPT_ID', 'ENST0001.1'), A('START', start), A('END', start + ln),
                                    A('DONOR_START', start + 60), A('DONOR_END', start + 60 + ln + 2),
                                    A('DONOR_GENE_ID', 'ENSG0001.1'), A('COORDINATE', 'gene'), A('GENE_SYMBOL', 'GN1'),
                                    A('GENOMIC_POSITION', 'chr1:5:9-chr1:70:80')]))
    for _ in range(n_random):
        start = r.randrange(0, 5000)
        lr, la = r.choice([(1, 1), (1, r.randrange(2, 8)), (r.randrange(2, 8), 1), (r.randrange(2, 5), r.randrange(2, 5))])
        ref = ''.join(r.choice(bases) for _ in range(lr)); alt = ''.join(r.choice(bases) for _ in range(la))
        mtype = 'SNV' if lr == la == 1 else ('INDEL' if 1 in (lr, la) else 'MNV')
        recs.append(dict(gene=f'ENSG{r.randrange(1, 9):04d}.{r.randrange(1, 4)}', start=start, end=start + lr,
                         id=f'{mtype}-{start + 1}-{ref}-{alt}', ref=list(ref), alt=list(alt), mtype=mtype, kind=mtype,
                         attrs=base(f'ENST{r.randrange(1, 99):04d}.1')))
    return recs


def circ_universe(r, n_random):
    cs = []
    for start in (0, 17, 400):
        for offs, lens, intr in (([0], [30], []), ([0, 40], [20, 25], []), ([0], [33], [1]), ([0, 30, 80], [10, 12, 9], []),
                                 ([0, 30], [10, 12], [2])):
            for gpos in ('chr1:100:200', ''):
                cs.append(dict(gene='ENSG0001.1', start=start, id=f"{'CI' if intr else 'CIRC'}-ENST0001.1-{start}:{start + offs[-1] + lens[-1]}",
                               offsets=offs, lengths=lens, introns=intr, tx='ENST0001.1', symbol='GN1', gpos=gpos))
    for _ in range(n_random):
        n = r.randrange(1, 5)
        offs, lens, cur = [], [], 0
        for k in range(n):
            offs.append(cur); L = r.randrange(4, 60); lens.append(L); cur += L + r.randrange(1, 30)
        start = r.randrange(0, 3000)
        cs.append(dict(gene='ENSG0002.1', start=start, id=f'CIRC-ENST0002.1-{start}:{start + offs[-1] + lens[-1]}', offsets=offs,
                       lengths=lens, introns=[], tx='ENST0002.1', symbol='GN2', gpos=f'chr2:{start + 9}:{start + 99}'))
        if n >= 2 and r.random() < 0.6:
            # fragments in descending gene order, as parseCIRCexplorer writes them for minus-strand genes: the record's position is
            # the first listed fragment and the other offsets are negative
            top = start + offs[-1]
            roffs = [start + o - top for o in reversed(offs)]
            cs.append(dict(gene='ENSG0003.1', start=top, id=f'CIRC-ENST0003.1-{start}:{start + offs[-1] + lens[-1]}', offsets=roffs,
                           lengths=list(reversed(lens)), introns=[], tx='ENST0003.1', symbol='GN3', gpos=f'chr3:{start + 9}:{start + 99}'))
    cs.append(dict(gene='ENSG0003.1', start=700, id='CIRC-ENST0003.1-400:800', offsets=[0, -300], lengths=[100, 100], introns=[],
                   tx='ENST0003.1', symbol='GN3', gpos='chr3:1:2'))
    return cs


def pool_scenarios(r, tier):
    scs = []
    txs = ['T1', 'T2', 'T3']
    # every grouping: all tx label sequences (file 1: length 0..4, file 2: length 0..2), with index variants
    L1 = 4 if tier == 'thorough' else 3
    lay = []
    for n1 in range(0, L1 + 1):
        for s1 in itertools.product(txs, repeat=n1):
            for n2 in range(0, 3):
                for s2 in itertools.product(txs, repeat=n2):
                    if n1 + n2 == 0:
                        continue
                    lay.append((s1, s2))
    if tier == 'quick':
        r.shuffle(lay); lay = lay[:260]
    for k, (s1, s2) in enumerate(lay):
        ops = []
        rid = 0
        for f, s in ((1, s1), (2, s2)):
            for t in s:
                rid = rid % 9 + 1
                ops.append(dict(op='append', f=f, tx=t, id=rid))
        mode = k % 4
        if mode in (1, 3) and s1:
            ops.append(dict(op='index', f=1))
        if mode in (2, 3) and s2:
            ops.append(dict(op='index', f=2))
        ops.append(dict(op='open')); ops.append(dict(op='close'))
        # edit after index, reopen
        if mode == 1 and s1:
            ops += [dict(op='append', f=1, tx=r.choice(txs), id=5), dict(op='open'), dict(op='close'),
                    dict(op='index', f=1), dict(op='open'), dict(op='close')]
        if mode == 3 and len(s1) > 1:
            ops += [dict(op='drop', f=1), dict(op='open'), dict(op='close')]
        if mode == 2 and s2 and len(s2) > 1:
            ops += [dict(op='drop', f=2), dict(op='open'), dict(op='close'), dict(op='index', f=2), dict(op='open')]
        scs.append(dict(ops=ops, unicode=(k % 5) if (k % 5) in (1, 2) else 0, nonl=1 if k % 3 == 1 else 0))   # non-ASCII header path / attribute values
    return scs


def check_c13(tier):
    rep = report.Report('C13', tier)
    rep.cov['rule'] = ("format: structured + random records of every kind (SNV, INDEL, MNV, RES, Fusion, Insertion, Deletion, "
                       "Substitution, circRNA/ciRNA) built in memory as the parsers build them, written, re-read and re-written by "
                       "the real code; tokens compared with GvfFormat.Line/Parse; access path: every grouping of <=4(+2) records "
                       "over 3 transcripts in 2 files with index/edit histories, validated against GvfPool; non-trivial = "
                       "record with position-shifted attributes, or scenario with an interleaved transcript or an edit")
    work = env.scratch('c13_')
    r = env.rng('c13')
    # design model
    mc = tlc.run('GvfPool', 'MC_GvfPool.cfg', timeout=1800)
    rep.tlc('MC_GvfPool.cfg', mc)
    if mc.violation:
        rep.violation(f'model:{mc.violation}', f"GvfPool design model violates {mc.violation}", dict(tail=mc.out[-1500:]))
    elif not mc.ok:
        rep.machinery(f"TLC failed on MC_GvfPool.cfg: {mc.errors[:2]} {mc.out[-300:]}")
    variants = variant_universe(r, 150 if tier == 'quick' else 3000)
    circs = circ_universe(r, 40 if tier == 'quick' else 800)
    pools = pool_scenarios(r, tier)
    nj = env.NCPU
    jl = [dict(variants=variants[k::nj], circs=circs[k::nj], pools=pools[k::nj], dir=os.path.join(work, f'w{k}'))
          for k in range(nj)]
    for j in jl:
        os.makedirs(j['dir'], exist_ok=True)
    results = jobs.run_jobs('run_gvf_case.py', jl, timeout=3000)
    cases, info, traces, tinfo = [], [], [], []
    for k, res in enumerate(results):
        if not res.get('ok'):
            rep.machinery(f"gvf worker failed: {res.get('error')} {res.get('stderr', '')[-400:]}")
            return rep.finish()
        for rec, o in zip(variants[k::nj], res['variants']):
            key = env.canon_hash(rec)
            if not o['ok']:
                rep.case(1, key)
                rep.violation(f"fmt:{key}", f"variant record could not be written/re-read: {o['error']}", rec)
                continue
            spec_rec = dict(gene=rec['gene'], start=rec['start'], end=rec['end'], id=rec['id'], ref=rec['ref'],
                            alt=rec['alt'], kind=rec['kind'], attrs=rec['attrs'])
            l1, l2 = dict(o['line1']), dict(o['line2'])
            qf1, qf2 = l1.pop('qual_filter'), l2.pop('qual_filter')
            if qf1 != ['.', '.'] or qf2 != ['.', '.']:
                rep.violation(f"fmt:{key}:qual", f"QUAL/FILTER columns are {qf1}", rec)
            cases.append(dict(kind='variant', rec=spec_rec, line1=l1, parsed=o['parsed'], line2=l2, text_same=o['text_same']))
            info.append((key, rec, o.get('text')))
        for c, o in zip(circs[k::nj], res['circs']):
            key = env.canon_hash(c)
            if not o['ok']:
                rep.case(1, key)
                rep.violation(f"fmt:{key}", f"circRNA record could not be written/re-read: {o['error']}", c)
                continue
            cases.append(dict(kind='circ', rec=c, line1=o['line1'], parsed=o['parsed'], line2=o['line2'],
                              text_same=o['text_same'], fragments=o['fragments']))
            info.append((key, c, o.get('text')))
        for sc, o in zip(pools[k::nj], res['pools']):
            if o['error']:
                rep.case(1, env.canon_hash(sc))
                rep.violation(f"pool:{env.canon_hash(sc)}", f"GVF pool scenario raised: {o['error']}", sc)
                continue
            traces.append(dict(events=o['events'])); tinfo.append(sc)
    # format level
    f = os.path.join(work, 'fmt.json')
    nshard = 8
    from concurrent.futures import ThreadPoolExecutor

    def run_shard(k):
        fk = os.path.join(work, f'fmt_{k}.json')
        json.dump(tlc.jsonable(cases[k::nshard]), open(fk, 'w'))
        return tlc.run('GvfTrace', 'GvfTrace.cfg', workers=1, envvars=dict(CASES_FILE=fk), timeout=3000, heap='2g')
    with ThreadPoolExecutor(max_workers=nshard) as ex:
        rs = list(ex.map(run_shard, range(nshard)))
    for k, rr in enumerate(rs):
        rep.tlc(f'GvfTrace shard {k}', rr)
        if not rr.ok:
            rep.machinery(f"GvfTrace shard {k}: rc={rr.rc} {rr.errors[:2]} {rr.out[-500:]}")
            continue
        done, bad = set(), {}
        for s in rr.printed:
            m = re.match(r'<<"V", (\d+), "(\w+)">>$', s)
            if m:
                (done.add(int(m.group(1))) if m.group(2) == 'done' else bad.setdefault(int(m.group(1)), set()).add(m.group(2)))
        if len(done) != len(cases[k::nshard]):
            rep.machinery(f"GvfTrace shard {k}: {len(done)} verdicts for {len(cases[k::nshard])} cases")
        for j in done:
            key, rec, text = info[(j - 1) * nshard + k]
            shifted = 'attrs' in rec and any(a[0] in ('START', 'DONOR_START', 'ACCEPTER_POSITION') for a in rec['attrs'])
            rep.case(1, key if (shifted or 'offsets' in rec) else None)
            rep.traces(1)
            if j in bad:
                rep.violation(f"fmt:{key}:{','.join(sorted(bad[j]))}",
                              f"GVF round trip of {rec.get('mtype', 'circRNA')} record fails clauses {sorted(bad[j])}; text written: {text}",
                              dict(rec=rec, text=text))
    # access-path level
    tf = os.path.join(work, 'pooltraces.json')
    json.dump(tlc.jsonable(traces), open(tf, 'w'))
    rr = tlc.run('GvfPoolTrace', 'GvfPoolTrace.cfg', workers=1, envvars=dict(TRACE_FILE=tf), timeout=3000)
    rep.tlc('GvfPoolTrace', rr)
    if not rr.ok:
        rep.machinery(f"GvfPoolTrace: rc={rr.rc} {rr.errors[:2]} {rr.out[-500:]}")
    else:
        verdict = {}
        for s in rr.printed:
            m = re.match(r'<<"V", (\d+), "(\w+)">>$', s)
            if m:
                j = int(m.group(1))
                if m.group(2) != 'ok':
                    verdict[j] = m.group(2)
                else:
                    verdict.setdefault(j, 'ok')
        for j, sc in enumerate(tinfo, 1):
            ops = sc['ops']
            seqs = {}
            for o in ops:
                if o['op'] == 'append':
                    seqs.setdefault(o['f'], []).append(o['tx'])
            interleaved = any(len(s) >= 3 and any(s[a] == s[c] != s[b] for a in range(len(s)) for b in range(a + 1, len(s))
                                                  for c in range(b + 1, len(s))) for s in seqs.values())
            edited = sum(1 for o in ops if o['op'] == 'open') > 1
            rep.case(1, env.canon_hash(ops) if (interleaved or edited) else None)
            rep.traces(1)
            v = verdict.get(j, 'rejected')
            if v != 'ok':
                evs = traces[j - 1]['events']
                rep.violation(f"pool:{env.canon_hash(ops)}",
                              f"GVF pool history is not a behaviour of GvfPool ({v}): events="
                              f"{[(e['event'], e.get('f'), e.get('tx'), e.get('status'), e.get('table')) for e in evs]}",
                              dict(ops=ops, events=evs))
    if cases:
        rep.sample(dict(record=info[5][1], text_written=info[5][2]))
    if traces:
        rep.sample(dict(pool_history=traces[min(7, len(traces) - 1)]['events']))
    return rep.finish()
