"""C12: index directory (spec/IndexDir.tla). Model checking + replay of TLC-generated histories."""
import json, os, re, hashlib
from vlib import env, tlc, report, jobs, refgen

# a family of parameter sets that differ from the base in exactly one field each; every replayed history maps the spec's
# three abstract parameter sets to the base and two other members (so "differs only in the exception / the maximal
# length / ..." all occur), and all members must give pairwise different pools on the reference
BASE = dict(rule='trypsin', exc='trypsin_exception', misc=1, min_len=3, max_len=20, min_mw='0.00005')
FAMILY = dict(base=BASE, exc=dict(BASE, exc=''), misc=dict(BASE, misc=2), minlen=dict(BASE, min_len=5),
              maxlen=dict(BASE, max_len=12), minmw=dict(BASE, min_mw='700.00005'), rule=dict(BASE, rule='lysc', exc=''))


def psets_for(i):
    r = env.rng(f'c12-psets-{i}')
    names = ['base'] + r.sample([k for k in FAMILY if k != 'base'], 2)
    r.shuffle(names)
    return {k + 1: n for k, n in enumerate(names)}


def histories(tier, rep):
    hs = []
    if tier == 'quick':
        runs = [('MC_IndexDir_sim.cfg', dict(simulate=f'num=260', depth=8, seed=env.seed() + 11, workers=1))]
    else:
        runs = [('MC_IndexDir_all.cfg', dict(workers=4)),
                ('MC_IndexDir_sim.cfg', dict(simulate=f'num=1500', depth=8, seed=env.seed() + 11, workers=1))]
    for cfg, kw in runs:
        r = tlc.run('MC_IndexDir', cfg, timeout=3000, **kw)
        rep.tlc(cfg, r)
        n0 = len(hs)
        for s in r.printed:
            m = re.match(r'<<"H", "(.*)">>$', s)
            if m:
                hs.append(json.loads(m.group(1).encode().decode('unicode_escape')))
        if len(hs) == n0:
            rep.machinery(f"no histories from {cfg}: rc={r.rc} {r.errors[:2]} {r.out[-300:]}")
    # de-duplicate
    seen, out = set(), []
    for h in hs:
        k = json.dumps([x['r'] for x in h], sort_keys=True)
        if k not in seen:
            seen.add(k); out.append(h)
    return out


def fmap(f):
    if isinstance(f, list):
        return {i + 1: v for i, v in enumerate(f)}
    return {int(k): v for k, v in f.items()}


def pool_sig(pool):
    return hashlib.sha256('\n'.join(sorted(pool)).encode()).hexdigest()[:12]


def compare(h, res, refsig, refdata, PSETS):
    """-> None or description of the first disagreement"""
    for k, (step, obs) in enumerate(zip(h, res)):
        r, post = step['r'], step['post']
        if r['op'] == 'tamper':
            want = 'ok'
        else:
            want = r['status']
        got = obs['status'].split(':')[0]
        if got != want:
            return f"step {k + 1} {r['op']}(p={r['p']}, force={r['force']}, symlink={r['symlink']}): spec says {want}, implementation {obs['status']} {obs.get('msg', '')}"
        if r['op'] == 'load' and want == 'ok':
            if pool_sig(obs['pool']) != refsig[r['value']]:
                other = [q for q, s in refsig.items() if s == pool_sig(obs['pool'])]
                return f"step {k + 1} load(p={r['p']}) returned a pool that is not the pool of parameter set {r['value']} (matches {other or 'none'})"
            for key in ('genome', 'proteome', 'coding', 'tx'):
                if obs[key] != refdata[key]:
                    return f"step {k + 1} load(p={r['p']}): {key} differs from what was saved"
            if obs['coding_saved'] != refdata['coding']:
                return f"step {k + 1} load(p={r['p']}): coding-transcript list differs from what was saved"
        # directory state
        meta = obs['meta']
        if bool(meta) != post['hasMeta']:
            return f"step {k + 1} {r['op']}: metadata.json present={bool(meta)}, spec {post['hasMeta']}"
        if meta:
            got_pools = [(p['index'], p['filename']) for p in meta['canonical_pools']]
            want_pools = [(p['idx'], f"canonical_peptides_{p['idx']:03}.pkl") for p in post['pools']]
            if got_pools != want_pools:
                return f"step {k + 1} {r['op']}: registered pools {got_pools}, spec {want_pools}"
            for p, q in zip(meta['canonical_pools'], post['pools']):
                ps = PSETS[q['p']]
                cp = p['cleavage_params']
                if (cp['enzyme'], cp['exception'] or '', cp['miscleavage'], cp['min_length'], cp['max_length']) != \
                        (ps['rule'], ps['exc'], ps['misc'], ps['min_len'], ps['max_len']):
                    return f"step {k + 1} {r['op']}: pool {p['index']} registered with {cp}, spec parameter set {q['p']}"
        want_files = {f"canonical_peptides_{i:03}.pkl": refsig[v] for i, v in fmap(post['files']).items()}
        if obs['pool_sigs'] != want_files:
            return f"step {k + 1} {r['op']}: pool files {obs['pool_sigs']}, spec {want_files}"
    return None


def check_c12(tier):
    rep = report.Report('C12', tier)
    rep.cov['rule'] = ("model: complete reachable state graph of IndexDir over 3 parameter sets (VIEW without history); the three abstract sets are bound, per history, to the base set and two members of a family that differ from it in exactly one field (exception, miscleavage, min/max length, min mass, rule); "
                       "impl: TLC-generated operation histories (simulation depth 7; thorough: every history of length 4 "
                       "over 2 parameter sets) replayed step by step against generateIndex/updateIndex/load_references with "
                       "status, metadata.json, pool files and loaded data compared after every step; non-trivial = history "
                       "contains a successful generate; distinct = distinct operation sequences")
    r = tlc.run('MC_IndexDir', 'MC_IndexDir.cfg', coverage=True, timeout=1800)
    rep.tlc('MC_IndexDir.cfg', r)
    if r.violation:
        rep.violation(f'model:{r.violation}', f"IndexDir design model violates {r.violation}", dict(tail=r.out[-2000:]))
    elif not r.ok:
        rep.machinery(f"TLC failed on MC_IndexDir.cfg: {r.errors[:2]} {r.out[-300:]}")
    never = [a for a, (d, t) in r.coverage.items() if t == 0 and a in ('Generate', 'Update', 'Load', 'Tamper')]
    if never:
        rep.machinery(f"actions never taken in MC_IndexDir: {never}")
    hs = histories(tier, rep)
    work = env.scratch('c12_')
    rr = env.rng('c12')
    names = list(FAMILY)
    for attempt in range(10):
        # proteins with trypsin-exception motifs, so that the exception changes the pool
        b = refgen.Builder(rr)
        for _ in range(3):
            prot = 'M' + refgen.rand_protein(rr, rr.randrange(12, 20)) + rr.choice(['CKD', 'DKD', 'CKH', 'CRK', 'RRH', 'CKY']) + \
                refgen.rand_protein(rr, rr.randrange(12, 20)) + rr.choice(['CKD', 'DKD', 'RRR', 'CRK']) + refgen.rand_protein(rr, 8)
            u5 = rr.randrange(3, 9)
            seq = refgen.rand_dna(rr, u5) + refgen.encode(rr, prot) + rr.choice(refgen.STOPS) + refgen.rand_dna(rr, 9)
            b.add_gene(seq, rr.choice([1, -1]), rr.randrange(1, 3), True, u5, u5 + 3 * len(prot) + 3, (), (), prot)
        ref = b.finish()
        paths = ref.write(os.path.join(work, f'ref{attempt}'))
        base = jobs.run_job('run_index_ops.py', dict(ref=paths, dir=os.path.join(work, 'none'),
                                                     ops=[dict(op='fly', p=FAMILY[k]) for k in names]))
        if not base.get('ok') or any(o['status'] != 'ok' for o in base['results']):
            rep.machinery(f"reference pools could not be computed: {str(base)[:600]}")
            return rep.finish()
        famsig = {k: pool_sig(base['results'][j]['pool']) for j, k in enumerate(names)}
        if len(set(famsig.values())) == len(names) and all(base['results'][j]['pool'] for j in range(len(names))):
            break
    else:
        rep.machinery("the parameter family does not give pairwise different non-empty pools on 10 references")
        return rep.finish()
    refdata = {k: base['results'][0][k] for k in ('genome', 'proteome', 'coding', 'tx')}
    per = 12 if tier == 'quick' else 60
    jl = []
    for a in range(0, len(hs), per):
        chunk = hs[a:a + per]
        jl.append(dict(jobs=[dict(ref=paths, dir=os.path.join(work, f'd{a + i}'), sig=True,
                                  ops=[dict(op=s['r']['op'], p=FAMILY.get(psets_for(a + i).get(s['r']['p'])), force=s['r']['force'],
                                            symlink=s['r']['symlink'], field=s['r']['status']) for s in h])
                             for i, h in enumerate(chunk)]))
    results = jobs.run_jobs('run_index_ops.py', jl, timeout=3000)
    flat = []
    for res in results:
        if not res.get('ok'):
            rep.machinery(f"index ops worker failed: {res.get('error')} {res.get('stderr', '')[-300:]}")
            return rep.finish()
        flat += res['results']
    for hi, (h, res) in enumerate(zip(hs, flat)):
        pm = psets_for(hi)
        ops = [(s['r']['op'], pm.get(s['r']['p'], s['r']['p']), s['r']['force'], s['r']['symlink']) for s in h]
        key = env.canon_hash(ops)
        nontriv = any(s['r']['op'] == 'generate' and s['r']['status'] == 'ok' for s in h)
        rep.case(1, key if nontriv else None)
        rep.traces(1)
        bad = compare(h, res, {k: famsig[n] for k, n in pm.items()}, refdata, {k: FAMILY[n] for k, n in pm.items()})
        if bad:
            rep.violation(f"hist:{key}", f"history {ops}: {bad}", dict(history=h))
    if hs:
        rep.sample([dict(op=s['r']['op'], p=s['r']['p'], force=s['r']['force'], symlink=s['r']['symlink'],
                         spec_status=s['r']['status'], spec_pools=s['post']['pools']) for s in hs[0]])
    return rep.finish()
