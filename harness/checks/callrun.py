"""C06 / C07: the callVariant run as a state machine (spec/CallVariantRun.tla).

1. model checking of the design (MC_CallVariantRun*.cfg)
2. trace validation of real runs (CallVariantRunTrace.tla): dispatch-loop events from the
   guarded hooks, under varying thread counts, skip patterns, file layouts, index use,
   hash seeds (C06) and injected unit failures (C07).
"""
import re, json, os, itertools, shutil
from vlib import env, tlc, jobs, report

DEMO = os.path.join(env.REPO, 'test', 'files')
DEMO_REF = dict(genome_fasta=f'{DEMO}/genome.fasta', annotation_gtf=f'{DEMO}/annotation.gtf',
                proteome_fasta=f'{DEMO}/translate.fasta')
G = dict(snp=f'{DEMO}/vep/vep_gSNP.gvf', indel=f'{DEMO}/vep/vep_gINDEL.gvf',
         fusion=f'{DEMO}/fusion/fusion.gvf', circ=f'{DEMO}/circRNA/circ_rna.gvf',
         redi=f'{DEMO}/reditools/reditools.gvf',
         alts=f'{DEMO}/alternative_splicing/alternative_splicing.gvf')


def demo_inputs(tier):
    ins = [
        dict(name='demo5_nct', gvfs=['snp', 'indel', 'fusion', 'circ', 'redi'], opts=dict(noncanonical_transcripts=True)),
        dict(name='demo6_nct', gvfs=['snp', 'indel', 'fusion', 'circ', 'redi', 'alts'], opts=dict(noncanonical_transcripts=True)),
        dict(name='demo6', gvfs=['snp', 'indel', 'fusion', 'circ', 'redi', 'alts'], opts={}),
        dict(name='snp_circ_nct', gvfs=['snp', 'circ'], opts=dict(noncanonical_transcripts=True)),
    ]
    if tier == 'thorough':
        ins += [
            dict(name='indel_fusion_nct', gvfs=['indel', 'fusion'], opts=dict(noncanonical_transcripts=True)),
            dict(name='redi_alts_nct', gvfs=['redi', 'alts', 'snp'], opts=dict(noncanonical_transcripts=True)),
            dict(name='demo5', gvfs=['snp', 'indel', 'fusion', 'circ', 'redi'], opts={}),
            dict(name='demo6_sect', gvfs=['snp', 'indel', 'fusion', 'circ', 'redi', 'alts'],
                 opts=dict(selenocysteine_termination=True, w2f_reassignment=True)),
        ]
    for i in ins:
        i['ref'] = dict(DEMO_REF)
        i['files'] = [G[g] for g in i['gvfs']]
    return ins


def synthetic_inputs(tier, work, which):
    """Synthetic references with controlled skip patterns (transcripts whose only variant is intronic) and a donor
    transcript that carries two fusions with different breakpoints, a circRNA and SNVs downstream of the first breakpoint."""
    from vlib import refgen, cvgen
    r = env.rng('callrun-synth')
    ntx = 5
    if which == 'C06':
        patterns = ['00001', '00011', '10001', '01010', '11110', '00100'] if tier == 'quick' else \
            [format(k, '05b') for k in range(1, 32)]
    else:
        patterns = ['00000', '00010'] if tier == 'quick' else ['00000', '00010', '01001', '00001']
    out = []
    for pi, pat in enumerate(patterns):
        while True:
            ref = refgen.random_reference(r, n_genes=ntx, coding_p=1.0, max_exons=3, aa_len=(24, 34), strands=(1, -1))
            txs = list(ref.txs.values())
            if all(len(t.exons) >= 2 for t in txs):
                break
        d = os.path.join(work, f'synth_{which}_{pi}'); os.makedirs(d, exist_ok=True)
        paths = ref.write(d)
        small, intronic = [], []
        for k, t in enumerate(txs):
            g = ref.genes[t.gene]
            chrom = ref.chroms['chr1']
            if pat[k] == '1':
                # intron-only variant: the transcript is in the GVF but yields nothing
                x = (t.exons[0][1] + t.exons[1][0]) // 2
                gp = g.g2gene(x)
                base = g.seq(chrom)[gp]
                alt = 'A' if base != 'A' else 'C'
                small.append(dict(tx=t.id, gene=t.gene, gstart=gp, ref=base, alt=alt, id=f'SNV-{gp + 1}-{base}-{alt}'))
            else:
                vs = cvgen.random_small_variants(r, ref, t, 3, kinds=('SNV',))
                small += vs
        files = []
        f1 = os.path.join(d, 'small.gvf'); cvgen.write_gvf(f1, small); files.append(f1)
        donor = next((t for k, t in enumerate(txs) if pat[k] == '0'), None)
        others = [t for t in txs if donor is not None and t.id != donor.id]
        if donor is not None and others:
            lines = []
            L = donor.length()
            bps = sorted({donor.cds_start + 9, donor.cds_start + 12 + (L - donor.cds_start) // 2})
            for b, acc in zip(bps, others):
                if b < L - 2:
                    lines.append(cvgen.fusion_line(ref, donor, donor.tx2g(b), acc, acc.tx2g(min(6, acc.length() - 3)))[1])
            f2 = os.path.join(d, 'fusion.gvf'); cvgen.write_gvf_lines(f2, lines, 'parseSTARFusion', 'Fusion'); files.append(f2)
            f3 = os.path.join(d, 'circ.gvf')
            cvgen.write_gvf_lines(f3, [cvgen.circ_line(ref, donor, list(range(len(donor.exons))))[1]], 'parseCIRCexplorer', 'circRNA')
            files.append(f3)
        # two alternative-splicing insertions anchored on the same exon end with different donor segments (a retained intron and
        # an alternative splice site inside it), each in a GVF file of its own
        host = next((t for k, t in enumerate(txs) if pat[k] == '0' and (donor is None or t.id != donor.id)
                     and any(b[0] - a[1] >= 9 for a, b in zip(cvgen.gene_exons(ref, t), cvgen.gene_exons(ref, t)[1:]))), None)
        if host is not None and which == 'C06':
            g = ref.genes[host.gene]; gseq = g.seq(ref.chroms['chr1']); ex = cvgen.gene_exons(ref, host)
            k = next(i for i in range(len(ex) - 1) if ex[i + 1][0] - ex[i][1] >= 9)
            ia, ib = ex[k][1], ex[k + 1][0]
            for n_, (da, db) in enumerate(((ia, ib), (ia, ia + 3 * ((ib - ia) // 6) + 1))):
                info = (f"TRANSCRIPT_ID={host.id};DONOR_GENE_ID={host.gene};DONOR_START={da + 1};DONOR_END={db};"
                        f"GENE_SYMBOL={g.name};GENOMIC_POSITION=chr1:1-2")
                line = '\t'.join([host.gene, str(ia), f'RI_{da}-{db}', gseq[ia - 1], '<INS>', '.', '.', info])
                fa = os.path.join(d, f'as{n_}.gvf')
                with open(fa, 'w') as fh:
                    fh.write(cvgen.AS_HEAD.format(parser='parseRMATS', source='AltSplicing') + line + '\n')
                files.append(fa)
        out.append(dict(name=f'synth_{pat}', gvfs=[], light=(which == 'C06'), opts=dict(min_length=4, miscleavage='1', min_mw='0.00005'),
                        ref=paths, files=files))
    return out


def invalid_inputs(tier, work):
    """Inputs with a transcript whose variant series cannot be loaded (callVariant counts it as invalid under --skip-failed and
    raises otherwise): an isoform without the first / last exon of its gene and a record that names it at a gene position inside
    the missing exon.  The invalid transcript is the last one in annotation order, or one in the middle."""
    from vlib import refgen, cvgen
    r = env.rng('callrun-invalid')
    out = []
    for name, where in (('invalid_last', 2), ('invalid_mid', 1)):
        for _ in range(50):
            b = refgen.Builder(r)
            for k in range(3):
                seq, cs, ce, secs, prot = refgen.make_coding_tx_seq(r, r.randrange(24, 34), r.randrange(3, 10), r.randrange(6, 16))
                b.add_gene(seq, r.choice([1, -1]), 3, True, cs, ce, secs, (), prot, isoforms=1 if k == where else 0, iso_terminal=(k == where))
            ref = b.finish()
            iso = [t for t in ref.txs.values() if not t.coding]
            if len(iso) == 1 and all(len(t.exons) == 3 for t in ref.txs.values() if t.coding):
                break
        iso = iso[0]
        g = ref.genes[iso.gene]
        main = next(t for t in ref.txs.values() if t.gene == iso.gene and t.coding)
        gone = next(e for e in main.exons if e not in iso.exons)
        d = os.path.join(work, f'synth_{name}'); os.makedirs(d, exist_ok=True)
        paths = ref.write(d)
        small = []
        for t in ref.txs.values():
            if t.coding:
                small += cvgen.random_small_variants(r, ref, t, 3, kinds=('SNV',))
        x = (gone[0] + gone[1]) // 2
        gp = g.g2gene(x); base = g.seq(ref.chroms['chr1'])[gp]; alt = 'A' if base != 'A' else 'C'
        small.append(dict(tx=iso.id, gene=iso.gene, gstart=gp, ref=base, alt=alt, id=f'SNV-{gp + 1}-{base}-{alt}'))
        f1 = os.path.join(d, 'small.gvf'); cvgen.write_gvf(f1, small)
        out.append(dict(name=f'synth_{name}', gvfs=[], light=True, opts=dict(min_length=4, miscleavage='1', min_mw='0.00005'),
                        ref=paths, files=[f1], invalid_expected=True))
    return out


def job_for(inp, outdir, threads=1, skip_failed=False, fail=None, files=None, ref=None, prep=None,
            extra=None):
    a = dict(ref or inp['ref'])
    a.update(inp['opts'])
    if extra:
        a.update(extra)
    a.update(input_path=files or inp['files'], output_path=os.path.join(outdir, 'out.fasta'),
             threads=threads, skip_failed=skip_failed)
    return dict(args=a, trace=True, fail=fail or [], prep=prep or [])


def uid(tx, kind, unit):
    return f"{tx}|{kind}|{unit}"


def analyse_baseline(res):
    """From a threads=1 traced run: transcript order, skip set, units per tx, peptides per unit."""
    evs = res['parent']
    order, skipped, invalid = [], [], []
    units, pep, kind = {}, {}, {}
    ninv = 0
    for e in evs:
        if e['event'] == 'gather':
            order.append(e['tx'])
            if e.get('n_invalid', 0) > ninv:
                # the variant series of this transcript could not be loaded (--skip-failed run)
                ninv = e['n_invalid']; invalid.append(e['tx'])
            elif not e['dispatched']:
                skipped.append(e['tx'])
        elif e['event'] in ('unit_ok', 'unit_fail'):
            u = uid(e['tx'], e['kind'], e['unit'])
            units.setdefault(e['tx'], [])
            if u not in units[e['tx']]:
                units[e['tx']].append(u)
            kind[u] = e['kind']
            if e['event'] == 'unit_ok':
                pep[u] = e['peptides']
    table = next((e['table'] for e in evs if e['event'] == 'finish'), None)
    return dict(order=order, skipped=skipped, invalid=invalid, units=units, pep=pep, kind=kind, table=table)


def fail_name(u):
    tx, kind, unit = u.split('|', 2)
    return f"{tx}:main" if kind == 'main' else (f"{tx}:fusion:{unit}" if kind == 'fusion' else f"{tx}:circ:{unit}")


def build_model(inp, rep, workdir):
    """Reference runs that establish the configuration record for an input."""
    d0 = os.path.join(workdir, inp['name'] + '_b0'); os.makedirs(d0, exist_ok=True)
    r0 = jobs.run_job('run_cv_case.py', job_for(inp, d0, skip_failed=bool(inp.get('invalid_expected'))))
    if not r0.get('ok'):
        rep.machinery(f"baseline run failed for {inp['name']}: {r0.get('error')} {r0.get('stderr', '')[-300:]}")
        return None
    b0 = analyse_baseline(r0)
    mains = [u for us in b0['units'].values() for u in us if b0['kind'][u] == 'main']
    circ_tx = [tx for tx, us in b0['units'].items()
               if any(b0['kind'][u] == 'circRNA' for u in us) and any(b0['kind'][u] == 'main' for u in us)]
    pep = dict(b0['pep'])
    valid = set(b0['table'])
    if circ_tx:
        d1 = os.path.join(workdir, inp['name'] + '_b1'); os.makedirs(d1, exist_ok=True)
        r1 = jobs.run_job('run_cv_case.py', job_for(inp, d1, skip_failed=True, fail=[fail_name(u) for u in mains]))
        if not r1.get('ok'):
            rep.machinery(f"baseline run (main units failing) failed for {inp['name']}: {r1.get('error')}")
            return None
        b1 = analyse_baseline(r1)
        for u, p in b1['pep'].items():
            if b1['kind'][u] == 'circRNA':
                pep[u] = p          # raw circRNA peptides (no cross-unit denylist)
        valid |= set(b1['table'])
    order = b0['order']
    idx = {tx: i + 1 for i, tx in enumerate(order)}
    # units in code order: main, fusions, circRNAs (order inside a kind is free: see callrun notes)
    kord = {'main': 0, 'fusion': 1, 'circRNA': 2}
    units = [sorted(b0['units'].get(tx, []), key=lambda u: (kord[b0['kind'][u]], u)) for tx in order]
    model = dict(ntx=len(order), order=order, idx=idx, units=units, kind=b0['kind'], pep=pep,
                 valid=sorted(valid), skip=[idx[t] for t in b0['skipped']], invalid=[idx[t] for t in b0['invalid']],
                 base_table=sorted(b0['table']),
                 base_parent=r0['parent'])
    return model


def run_record(model, res, threads, skip_failed, failing, label):
    """Project a traced run onto the trace format of CallVariantRunTrace."""
    idx = model['idx']
    evs = []
    for e in res.get('parent', []):
        n = e['event']
        if n == 'gather':
            evs.append(dict(event='gather', tx=idx.get(e['tx'], 0), dispatched=e['dispatched']))
        elif n == 'flush':
            evs.append(dict(event='flush', batch=[idx.get(t, 0) for t in e['batch']]))
        elif n == 'collect':
            evs.append(dict(event='collect', tx=idx.get(e['tx'], 0), flags=e['flags'],
                            peptides=e['peptides'], n_table=e['n_table']))
        elif n == 'finish':
            evs.append(dict(event='finish', table=e['table'], n_total=e['n_total'],
                            n_processed=e['n_processed'], n_invalid=e['n_invalid'],
                            n_failed_main=e['n_failed']['variant'], n_failed_fusion=e['n_failed']['fusion'],
                            n_failed_circ=e['n_failed']['circRNA'], n_total_peptides=e['n_total_peptides'],
                            fasta_ok=bool(res.get('ok')) and res.get('fasta') is not None and
                            sorted(s for _, s in res['fasta']) == sorted(e['table'])))
    if not res.get('ok'):
        evs.append(dict(event='abort', fasta_ok=bool(res.get('fasta_exists'))))
    allp = sorted({p for ps in model['pep'].values() for p in ps})
    return dict(label=label, ntx=model['ntx'], threads=threads, skipFailed=skip_failed,
                units=model['units'], kind=model['kind'],
                pep={u: model['pep'].get(u, []) for u in model['kind']},
                valid=model['valid'], skip=model['skip'], invalid=model.get('invalid', []), failing=sorted(failing),
                events=evs, error=res.get('error'))


def validate(runs, rep, workdir, tag):
    """Batch-validate run records with TLC. Returns {index: verdict}."""
    if not runs:
        return {}
    tf = os.path.join(workdir, f'trace_{tag}.json')
    json.dump(tlc.jsonable(runs), open(tf, 'w'))
    r = tlc.run('CallVariantRunTrace', 'CallVariantRunTrace.cfg', workers=1,
                envvars=dict(TRACE_FILE=tf), timeout=1800)
    rep.tlc(f'trace:{tag}', r)
    if r.rc not in (0,) or r.errors:
        rep.machinery(f"TLC failed on trace batch {tag}: rc={r.rc} {r.errors[:2]} {r.out[-600:]}")
        return None
    verdicts = {}
    for i, v in tlc.parse_verdicts(r.printed):
        if v != 'ok':
            verdicts[i] = v
        else:
            verdicts.setdefault(i, 'ok')
    out = {}
    for i in range(1, len(runs) + 1):
        out[i] = verdicts.get(i, 'rejected')
    rej = [i for i, v in out.items() if v == 'rejected']
    if rej:   # find the longest matched prefix of rejected traces
        tf2 = os.path.join(workdir, f'trace_{tag}_diag.json')
        json.dump(tlc.jsonable([runs[i - 1] for i in rej]), open(tf2, 'w'))
        r2 = tlc.run('CallVariantRunTrace', 'CallVariantRunTrace_diag.cfg', workers=1,
                     envvars=dict(TRACE_FILE=tf2), timeout=1800)
        best = {}
        import re
        for s in r2.printed:
            m = re.match(r'<<"P", (\d+), (\d+), "(\w+)", (\d+)>>', s)
            if m:
                k = int(m.group(1)); l = int(m.group(2))
                if l > best.get(k, (0,))[0]:
                    best[k] = (l, m.group(3), int(m.group(4)))
        for j, i in enumerate(rej, 1):
            l, ph, pos = best.get(j, (1, '?', 0))
            ev = runs[i - 1]['events']
            nxt = ev[l - 1] if l - 1 < len(ev) else None
            if nxt is not None:
                nxt = {k: (v if not isinstance(v, list) or len(v) < 8 else f'<{len(v)} items>') for k, v in nxt.items()}
            out[i] = f"rejected at event {l}/{len(ev)} (spec phase={ph}, pos={pos}); next event: {nxt}"
    return out


def model_check(rep, tier, which):
    cfgs = [('MC_CallVariantRun', 'MC_CallVariantRun.cfg', False),
            ('MC_CallVariantRun', 'MC_CallVariantRun_live.cfg', False)]
    if tier == 'thorough':
        cfgs.append(('MC_CallVariantRun', 'MC_CallVariantRun_deep.cfg', False))
    for mod, cfg, _ in cfgs:
        r = tlc.run(mod, cfg, coverage=(cfg.endswith('live.cfg')), timeout=3000)
        rep.tlc(cfg, r)
        if r.violation:
            rep.violation(f'model:{cfg}:{r.violation}',
                          f"design model violates {r.violation} ({cfg})", dict(tlc_tail=r.out[-3000:]))
        elif not r.ok:
            rep.machinery(f"TLC did not complete on {cfg}: rc={r.rc} {r.errors[:3]} {r.out[-400:]}")
    # the two defects of commit 8d5ff52 must be rejected by the same properties (non-vacuity)
    for cfg, want in (('MC_CallVariantRun_pinnedflush.cfg', 'FinishedComplete'),
                      ('MC_CallVariantRun_pinnedcirc.cfg', 'AbortJustified')):
        if (which == 'C06') != ('flush' in cfg):
            continue
        r = tlc.run('MC_CallVariantRun', cfg, timeout=1800)
        rep.part('nonvacuity', **{cfg: r.violation})
        if not r.violation:
            rep.machinery(f"{cfg}: the defect model of 8d5ff52 is no longer rejected (expected {want})")


def split_files(files, parts, workdir, order_seed):
    """Partition the records of each GVF into `parts` files (same header); returns file list."""
    out = []
    rnd = env.rng(f'split{order_seed}')
    for f in files:
        lines = open(f).read().splitlines(keepends=True)
        head = [l for l in lines if l.startswith('#')]
        recs = [l for l in lines if not l.startswith('#')]
        if len(recs) < 2 or parts < 2:
            p = os.path.join(workdir, os.path.basename(f)); shutil.copy(f, p); out.append(p); continue
        assign = [rnd.randrange(parts) for _ in recs]
        for k in range(parts):
            rk = [r for r, a in zip(recs, assign) if a == k]
            if not rk:
                continue
            p = os.path.join(workdir, os.path.basename(f).replace('.gvf', f'.part{k}.gvf'))
            open(p, 'w').write(''.join(head + rk)); out.append(p)
    rnd.shuffle(out)
    return out


def nondeterminism_corpus(rep, work):
    """corpus/C06_nondeterministic_limits: one input of the recorded finding; 6 identical runs with binding limits, compared with
    the first by MonotoneTrace (kind "same")"""
    from checks import cv
    from vlib import cvgen
    src = os.path.join(env.VERIF, 'corpus', 'C06_nondeterministic_limits')
    if not os.path.isdir(src):
        return
    d = os.path.join(work, 'nd_corpus'); os.makedirs(d, exist_ok=True)
    cfg = dict(rule='trypsin', exc='', misc=2, min_len=3, max_len=23, min_mw='200.00005')
    a = dict(genome_fasta=os.path.join(src, 'genome.fasta'), annotation_gtf=os.path.join(src, 'annotation.gtf'),
             proteome_fasta=os.path.join(src, 'proteome.fasta'))
    a.update(cvgen.cli_cfg(cfg))
    jl = [dict(cmd='callVariant', args=dict(a, input_path=[os.path.join(src, 'v.gvf')], output_path=os.path.join(d, f'o{k}.fasta'),
                                             max_variants_per_node=[1], additional_variants_per_misc=[0])) for k in range(6)]
    res = jobs.run_jobs('run_cv_batch.py', [dict(jobs=[j]) for j in jl], timeout=1200)
    outs = [rr['results'][0] for rr in res if rr.get('ok')]
    if len(outs) < 6 or not all(x['ok'] for x in outs):
        rep.machinery(f"corpus C06_nondeterministic_limits did not run: {[x.get('error') for x in outs][:2]}"); return
    cases = [dict(kind='same', a=cvgen.spec_cfg(cfg), b=cvgen.spec_cfg(cfg), outA=cv.fasta_case(outs[0]['fasta']),
                  outB=cv.fasta_case(x['fasta']), added='', txs=[]) for x in outs[1:]]
    bad = [vs for vs in cv.tlc_cases('MonotoneTrace', cases, work, 'ndcorpus', rep) if any(v.startswith('"differs"') for v in vs)]
    rep.traces(len(cases)); rep.case(len(cases), ('nd_corpus',))
    if bad:
        rep.violation("nondeterministic_under_binding_limits",
                      "corpus/C06_nondeterministic_limits: 6 identical runs with --max-variants-per-node 1 --additional-variants-per-misc 0 "
                      f"give {1 + len(bad)} runs unlike the first", dict(corpus='corpus/C06_nondeterministic_limits'))


def timeout_pairs(rep, tier, work):
    """A transcript that times out is retried with lower complexity limits; that must not depend on the thread count and must
    not leak into other transcripts: the same input with the same injected timeout under --threads 1 and --threads 2 gives the
    same peptide set (MonotoneTrace kind "same")."""
    from checks import cv
    from vlib import cvgen
    r = env.rng('c06-timeout')
    items = []
    k = 0
    while len(items) < (6 if tier == 'quick' else 60) and k < 400:
        k += 1
        it = cv.make_case(r, 'multi', os.path.join(work, 'tmo'), k, tier)
        if it and len(it['case']['txs']) >= 2:
            items.append(it)
    jl, meta = [], []
    for it in items:
        for t in it['case']['txs']:
            tid = t['tx']['id']
            for th in (1, 2):
                a = dict(it['args'], max_variants_per_node=[7, 1], additional_variants_per_misc=[2, 0], threads=th,
                         output_path=os.path.join(os.path.dirname(it['args']['output_path']), f'tmo_{tid}_{th}.fasta'))
                jl.append(dict(cmd='callVariant', args=a, timeouts={tid: 1}))
            meta.append((it, tid))
    # one process per run: worker pools of a multi-threaded run are cached inside a process and would keep the
    # environment (and the injected-timeout counters) of an earlier job
    res = jobs.run_jobs('run_cv_batch.py', [dict(jobs=[j]) for j in jl], timeout=3400)
    flat = []
    for rr in res:
        if not rr.get('ok'):
            rep.machinery(f"timeout-pair worker failed: {rr.get('error')} {rr.get('stderr', '')[-300:]}"); return
        flat.append(rr['results'][0])
    cases, info = [], []
    for n, (it, tid) in enumerate(meta):
        xa, xb = flat[2 * n], flat[2 * n + 1]
        if not xa['ok'] or not xb['ok']:
            rep.violation(f"timeout-crash:{env.canon_hash([it['variants'], tid])}",
                          f"callVariant raised under an injected timeout on {tid}: {xa['error'] or xb['error']}", dict(variants=it['variants']))
            continue
        cases.append(dict(kind='same', a=it['case']['cfg'], b=it['case']['cfg'], outA=cv.fasta_case(xa['fasta']),
                          outB=cv.fasta_case(xb['fasta']), added='', txs=[]))
        info.append((it, tid, xa, xb))
    verdicts = cv.tlc_cases('MonotoneTrace', cases, work, 'tmo', rep)
    differing = []
    for (it, tid, xa, xb), vs in zip(info, verdicts):
        rep.traces(1); rep.case(1, ('timeout', env.canon_hash([it['variants'], tid])) if xa['fasta'] else None)
        kinds = [re.match(r'"(\w+)"', v).group(1) for v in vs]
        if 'done' not in kinds:
            rep.machinery(f"no verdict for timeout pair {tid}")
        if 'differs' in kinds:
            peps = [''.join(re.findall(r'"(.)"', x)) for v in vs if v.startswith('"differs"') for x in re.findall(r'<<(.*?)>>', v)]
            differing.append((it, tid, xa, xb, peps))
    # A difference between the two thread counts is only attributed to --threads when each thread count is stable by itself:
    # the retry runs with binding complexity limits, under which identical runs of the unchanged tool can differ (recorded
    # finding nondeterministic_under_binding_limits).  Every differing pair is therefore repeated 6 more times per thread
    # count and MonotoneTrace (kind "same") compares the repeats of one thread count with its first run.
    REPEATS = 6
    jl2 = []
    for it, tid, xa, xb, peps in differing:
        for th in (1, 2):
            for k in range(REPEATS):
                a = dict(it['args'], max_variants_per_node=[7, 1], additional_variants_per_misc=[2, 0], threads=th,
                         output_path=os.path.join(os.path.dirname(it['args']['output_path']), f'tmo_{tid}_{th}_r{k}.fasta'))
                jl2.append(dict(cmd='callVariant', args=a, timeouts={tid: 1}))
    res2 = jobs.run_jobs('run_cv_batch.py', [dict(jobs=[j]) for j in jl2], timeout=3400) if jl2 else []
    flat2 = []
    for rr in res2:
        if not rr.get('ok'):
            rep.machinery(f"timeout-pair repeat worker failed: {rr.get('error')} {rr.get('stderr', '')[-300:]}"); return
        flat2.append(rr['results'][0])
    cases2, owner = [], []
    for n, (it, tid, xa, xb, peps) in enumerate(differing):
        for ti, first in ((0, xa), (1, xb)):
            for k in range(REPEATS):
                x = flat2[(2 * n + ti) * REPEATS + k]
                if not x['ok']:
                    rep.violation(f"timeout-crash:{env.canon_hash([it['variants'], tid])}",
                                  f"callVariant raised under an injected timeout on {tid}: {x['error']}", dict(variants=it['variants']))
                    continue
                cases2.append(dict(kind='same', a=it['case']['cfg'], b=it['case']['cfg'], outA=cv.fasta_case(first['fasta']),
                                   outB=cv.fasta_case(x['fasta']), added='', txs=[]))
                owner.append(n)
    unstable = set()
    if cases2:
        for n, vs in zip(owner, cv.tlc_cases('MonotoneTrace', cases2, work, 'tmorep', rep)):
            if any(v.startswith('"differs"') for v in vs):
                unstable.add(n)
    for n, (it, tid, xa, xb, peps) in enumerate(differing):
        ctx = dict(gtf=it['gtf'], chroms=it['chroms'], variants=it['variants'], timeout_on=tid,
                   threads1=sorted(s for _, s in xa['fasta']), threads2=sorted(s for _, s in xb['fasta']))
        if n in unstable:
            rep.violation("nondeterministic_under_binding_limits",
                          f"identical callVariant runs (same --threads) give different peptide sets once the retry after a timeout on {tid} "
                          f"runs with binding complexity limits: {peps[:6]}", ctx)
        else:
            rep.violation(f"timeout-threads:{env.canon_hash([it['variants'], tid])}",
                          f"with a timeout injected on {tid} the peptide set depends on --threads (1 vs 2; each stable over "
                          f"{REPEATS + 1} runs): {peps[:6]}", ctx)
    nondeterminism_corpus(rep, work)
    rep.part('timeout_pairs', pairs=len(info), differing=len(differing), unstable_by_themselves=len(unstable))


def check_c06(tier):
    rep = report.Report('C06', tier)
    rep.cov['rule'] = ("model: every skip pattern x failing-unit set x threads 1..4 x completion order of "
                       "MC_CallVariantRun; impl: traced runs of demo inputs under thread counts / record "
                       "partitions into files / file orders / .idx / index directory / hash seeds; a run is "
                       "non-trivial when its baseline output is non-empty; distinct = (input, variation)")
    rep.assumptions += ["per-unit peptide sets are taken from a threads=1 reference run of the same input",
                        "Biopython compatibility shim active (harness/compat)"]
    model_check(rep, tier, 'C06')
    work = env.scratch('c06_')
    runs, meta = [], []
    for inp in demo_inputs(tier) + synthetic_inputs(tier, work, 'C06'):
        m = build_model(inp, rep, work)
        if m is None:
            continue
        jl, hs, labels = [], [], []

        def add(label, **kw):
            d = os.path.join(work, f"{inp['name']}_{len(jl)}"); os.makedirs(d, exist_ok=True)
            hseed = kw.pop('hashseed', '0')
            jl.append(job_for(inp, d, **kw)); hs.append(hseed); labels.append((label, kw.get('threads', 1)))
        for th in ((2, 3, 4) if tier == 'quick' else (2, 3, 4, 5, 8)):
            add(f'threads={th}', threads=th)
        nsplit = 2 if tier == 'quick' else 6
        if inp.get('light'):
            nsplit = 0
            if len(inp['files']) > 1:
                add('files_reversed', files=list(reversed(inp['files'])), threads=1)
        for k in range(nsplit):
            d = os.path.join(work, f"{inp['name']}_split{k}"); os.makedirs(d, exist_ok=True)
            files = split_files(inp['files'], 2 + k % 2, d, f"{inp['name']}{k}")
            add(f'split{k}', files=files, threads=1 + (k % 2))
        # .idx files produced by the real indexGVF
        if inp.get('light'):
            results = jobs.run_jobs('run_cv_case.py', jl, hs)
            runs.append(run_record(m, dict(ok=True, parent=m['base_parent'],
                                           fasta=[('', s) for s in m['base_table']], fasta_exists=True),
                                   1, False, [], f"{inp['name']}:baseline"))
            meta.append((inp['name'], 'baseline', len(m['base_table'])))
            for (label, th), res in zip(labels, results):
                if str(res.get('error', '')).startswith('HARNESS'):
                    rep.machinery(f"{inp['name']} {label}: {res.get('error')} {res.get('stderr', '')[-300:]}")
                    continue
                runs.append(run_record(m, res, th, False, [], f"{inp['name']}:{label}"))
                meta.append((inp['name'], label, len(m['base_table'])))
            continue
        d = os.path.join(work, f"{inp['name']}_idx"); os.makedirs(d, exist_ok=True)
        idxfiles = []
        for f in inp['files']:
            p = os.path.join(d, os.path.basename(f)); shutil.copy(f, p); idxfiles.append(p)
        add('gvf_idx', files=idxfiles, prep=[['indexGVF', p] for p in idxfiles])
        # reference as generateIndex directory
        d = os.path.join(work, f"{inp['name']}_refidx")
        add('index_dir', ref=dict(index_dir=d), prep=[['generateIndex', dict(inp['ref'], output_dir=d)]],
            threads=2)
        for s in (('1', '2') if tier == 'quick' else ('1', '2', '3', '7', '11')):
            add(f'hashseed={s}', hashseed=s, threads=1 if s != '2' else 2)
        results = jobs.run_jobs('run_cv_case.py', jl, hs)
        # the reference run itself is validated as a trace too
        runs.append(run_record(m, dict(ok=True, parent=m['base_parent'],
                                       fasta=[('', s) for s in m['base_table']], fasta_exists=True),
                               1, False, [], f"{inp['name']}:baseline"))
        meta.append((inp['name'], 'baseline', len(m['base_table'])))
        for (label, th), res in zip(labels, results):
            if str(res.get('error', '')).startswith('HARNESS'):
                rep.machinery(f"{inp['name']} {label}: {res.get('error')} {res.get('stderr', '')[-300:]}")
                continue
            runs.append(run_record(m, res, th, False, [], f"{inp['name']}:{label}"))
            meta.append((inp['name'], label, len(m['base_table'])))
    timeout_pairs(rep, tier, work)
    verdicts = validate(runs, rep, work, 'c06')
    if verdicts is None:
        return rep.finish()
    for i, (name, label, nbase) in enumerate(meta, 1):
        v = verdicts.get(i, 'rejected')
        rep.case(1, (name, label) if nbase > 0 else None)
        rep.traces(1)
        if v != 'ok':
            r = runs[i - 1]
            rep.violation(f'{name}:{label}', f"run {name} [{label}] is not a behaviour of CallVariantRun: {v}; "
                          f"error={r.get('error')}", r)
    if runs:
        r = runs[min(1, len(runs) - 1)]
        rep.sample(dict(label=r['label'], threads=r['threads'], skip=r['skip'], ntx=r['ntx'],
                        events=[{k: (v if not isinstance(v, list) or len(v) < 6 else f'<{len(v)} items>')
                                 for k, v in e.items()} for e in r['events']][:14]))
    return rep.finish()


def check_c07(tier):
    rep = report.Report('C07', tier)
    rep.level = 'model_checking'
    rep.cov['rule'] = ("model: every failing-unit subset (<=2 units quick, all thorough) x skip pattern x "
                       "threads x --skip-failed of MC_CallVariantRun; impl: fault injection into every "
                       "subset of processing units (bounded size) of demo inputs, with/without "
                       "--skip-failed, threads 1 and 2, traces validated against the spec; non-trivial = "
                       "at least one unit fails; distinct = (input, failing set, skip-failed, threads)")
    rep.assumptions += ["failures are injected at the entry of the three per-unit callers (guarded hook)",
                        "per-unit peptide sets come from fault-free reference runs"]
    model_check(rep, tier, 'C07')
    work = env.scratch('c07_')
    runs, meta = [], []
    inputs = demo_inputs(tier)
    inputs = [i for i in inputs if i['name'] in ('demo6', 'demo5_nct', 'snp_circ_nct', 'demo5', 'demo6_sect')]
    inputs += synthetic_inputs(tier, work, 'C07')
    inputs += invalid_inputs(tier, work)
    for inp in inputs:
        m = build_model(inp, rep, work)
        if m is None:
            continue
        allunits = [u for us in m['units'] for u in us]
        subsets = [()]
        maxk = 2 if tier == 'quick' else 3
        for k in range(1, maxk + 1):
            subsets += list(itertools.combinations(allunits, k))
        rnd = env.rng('c07' + inp['name'])
        cap = 28 if tier == 'quick' else 400
        if len(subsets) > cap:
            ones = [s for s in subsets if len(s) <= 1]
            rest = [s for s in subsets if len(s) > 1]
            rnd.shuffle(rest)
            subsets = ones + rest[:cap - len(ones)]
        if tier == 'thorough' and len(allunits) <= 10:
            subsets.append(tuple(allunits))
        jl, labels = [], []
        for si, fs in enumerate(subsets):
            for sf in (True, False):
                if not sf and len(fs) > 1 and si % 3:
                    continue
                th = 1 if (si + sf) % 2 == 0 else 2
                d = os.path.join(work, f"{inp['name']}_{len(jl)}"); os.makedirs(d, exist_ok=True)
                jl.append(job_for(inp, d, threads=th, skip_failed=sf, fail=[fail_name(u) for u in fs]))
                labels.append((fs, sf, th))
        results = jobs.run_jobs('run_cv_case.py', jl)
        for (fs, sf, th), res in zip(labels, results):
            if str(res.get('error', '')).startswith('HARNESS'):
                rep.machinery(f"{inp['name']} fail={fs}: {res.get('error')} {res.get('stderr', '')[-300:]}")
                continue
            label = f"{inp['name']}:fail={','.join(fs) or '-'}:sf={int(sf)}:th={th}"
            runs.append(run_record(m, res, th, sf, list(fs), label))
            meta.append((label, len(fs)))
    verdicts = validate(runs, rep, work, 'c07')
    if verdicts is None:
        return rep.finish()
    for i, (label, nf) in enumerate(meta, 1):
        v = verdicts.get(i, 'rejected')
        rep.case(1, label if nf > 0 else None)
        rep.traces(1)
        if v != 'ok':
            r = runs[i - 1]
            rep.violation(label, f"run [{label}] is not a behaviour of CallVariantRun: {v}; error={r.get('error')}", r)
    for r in runs[3:5]:
        rep.sample(dict(label=r['label'], threads=r['threads'], skipFailed=r['skipFailed'], failing=r['failing'],
                        events=[{k: (v if not isinstance(v, list) or len(v) < 6 else f'<{len(v)} items>')
                                 for k, v in e.items()} for e in r['events']][:12]))
    return rep.finish()
