"""Verification harness library for moPepGen (model-based, TLA+)."""
