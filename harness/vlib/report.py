"""Evidence files, known-findings protocol, verdict/exit handling."""
import json, os, sys, time, traceback, shutil
from . import env

KF_PATH = os.path.join(env.VERIF, 'known_findings.json')


def load_known():
    if not os.path.exists(KF_PATH):
        return []
    return json.load(open(KF_PATH)).get('findings', [])


class Report:
    """Collects what one check run covered and decides the exit status.

    violation(key, what, replay_obj): a property violation observed against the real code
      (or the design model).  `key` identifies the failing input / call site / history; if
      a known finding of this property lists the same key the violation is reported as
      KNOWN-FINDING, otherwise as VIOLATION with a replay file.
    machinery(msg): the machinery itself failed (TLC crashed, trace not consumed for
      reasons other than the code) -> exit 2, never reported as a violation.
    """

    def __init__(self, pid, tier, level='model_checking'):
        self.pid = pid
        self.tier = tier
        self.level = level
        self.t0 = time.time()
        self.cov = dict(states=0, transitions=0, traces_validated_against_impl=0, samples=[],
                        evaluations=0, distinct_nontrivial=0, rule='', exhaustive=False,
                        tlc_runs=[], parts={})
        self.assumptions = []
        self.viol = []        # (key, what, replay)
        self.known_hits = []
        self.mach = []
        self._known = [k for k in load_known() if k.get('property') == pid and k.get('status') == 'open']
        self._distinct = set()

    # -- coverage bookkeeping -------------------------------------------------
    def tlc(self, name, r):
        self.cov['states'] += r.distinct
        self.cov['transitions'] += r.generated
        d = r.as_dict(); d['name'] = name
        if r.coverage:
            d['actions'] = {k: v[1] for k, v in r.coverage.items()}
        self.cov['tlc_runs'].append(d)

    def case(self, n=1, nontrivial_key=None):
        self.cov['evaluations'] += n
        if nontrivial_key is not None:
            self._distinct.add(nontrivial_key)

    def traces(self, n=1):
        self.cov['traces_validated_against_impl'] += n

    def sample(self, obj, limit=4):
        if len(self.cov['samples']) < limit:
            self.cov['samples'].append(obj)

    def part(self, name, **kw):
        self.cov['parts'].setdefault(name, {}).update(kw)

    # -- outcomes -------------------------------------------------------------
    def violation(self, key, what, replay=None):
        for k in self._known:
            if k.get('key') == key:
                if key not in [h[0] for h in self.known_hits]:
                    self.known_hits.append((key, k.get('what', what)))
                return False
        self.viol.append((key, what, replay))
        return True

    def machinery(self, msg):
        self.mach.append(msg)

    def finish(self):
        wall = time.time() - self.t0
        self.cov['distinct_nontrivial'] = len(self._distinct)
        os.makedirs(env.EVIDENCE, exist_ok=True)
        replay_dir = env.REPLAYS
        lines = []
        for i, (key, what, replay) in enumerate(self.viol[:25]):
            os.makedirs(replay_dir, exist_ok=True)
            path = os.path.join(replay_dir, f"{self.pid}_{env.canon_hash([key, what])}.json")
            with open(path, 'w') as f:
                json.dump(dict(property=self.pid, key=key, what=what, replay=replay), f, indent=1,
                          default=str)
            lines.append(f"VIOLATION property={self.pid} replay={path}")
            print(f"  what: {what}"[:600])
        if len(self.viol) > 25:
            print(f"  ... and {len(self.viol) - 25} more violations (not written as replay files)")
        for key, what in self.known_hits:
            print(f"KNOWN-FINDING: property={self.pid} {what} [{key}]")
        ev = dict(property_id=self.pid, tier=self.tier, seed=env.seed(), level=self.level,
                  coverage=self.cov, assumptions=self.assumptions, wall_s=round(wall, 2),
                  violations=len(self.viol), known_findings_seen=[k for k, _ in self.known_hits],
                  machinery_failures=self.mach)
        if not self.cov['samples']:
            self.cov['samples'] = ['(no sample recorded)']
        with open(os.path.join(env.EVIDENCE, f"{self.pid}.json"), 'w') as f:
            json.dump(ev, f, indent=1, default=str)
        for l in lines:
            print(l)
        if self.mach:
            for m in self.mach:
                print(f"MACHINERY-FAILURE property={self.pid} {m}"[:1000])
        print(f"{self.pid} {self.tier}: evaluations={self.cov['evaluations']} "
              f"distinct_nontrivial={self.cov['distinct_nontrivial']} states={self.cov['states']} "
              f"traces={self.cov['traces_validated_against_impl']} violations={len(self.viol)} "
              f"known={len(self.known_hits)} wall={wall:.1f}s")
        if self.viol:
            return 1
        if self.mach:
            return 2
        return 0
