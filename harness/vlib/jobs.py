"""Run many worker jobs (subprocesses with the real code) in parallel."""
import json, os, subprocess, sys
from concurrent.futures import ThreadPoolExecutor
from . import env


def run_job(script, job, hashseed='0', timeout=1200, extra_env=None):
    e = env.child_env(extra_env, hashseed)
    e['PYTHONWARNINGS'] = 'ignore'
    p = subprocess.run([env.PY, os.path.join(env.HARNESS, script)], input=json.dumps(job), env=e,
                       capture_output=True, text=True, timeout=timeout)
    if '@@RESULT@@' not in p.stdout:
        return dict(ok=False, error='HARNESS no result', stderr=p.stderr[-3000:], stdout=p.stdout[-1000:])
    return json.loads(p.stdout.split('@@RESULT@@', 1)[1])


def run_jobs(script, jobs, hashseeds=None, workers=None, timeout=1200):
    workers = workers or env.NCPU
    hashseeds = hashseeds or ['0'] * len(jobs)
    with ThreadPoolExecutor(max_workers=workers) as ex:
        futs = [ex.submit(run_job, script, j, hs, timeout) for j, hs in zip(jobs, hashseeds)]
        return [f.result() for f in futs]
