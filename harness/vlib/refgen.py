"""Synthetic references (genome + annotation + proteome) shared between the real code and
the TLA+ definitional layer.

Everything is described by plain data (dict/list/str/int) so that the same value is
(a) written as FASTA/GTF files for moPepGen and (b) serialised to JSON for TLC.

Coordinates: genomic and transcript positions are 0-based, intervals half-open.
"""
import os, json

COMP = {'A': 'T', 'C': 'G', 'G': 'C', 'T': 'A', 'N': 'N'}
STOPS = ('TAA', 'TAG', 'TGA')
CODONS = {}
_aas = 'FFLLSSSSYY**CC*WLLLLPPPPHHQQRRRRIIIMTTTTNNKKSSRRVVVVAAAADDEEGGGG'
_b = 'TCAG'
for _i, _a in enumerate(_b):
    for _j, _c in enumerate(_b):
        for _k, _d in enumerate(_b):
            CODONS[_a + _c + _d] = _aas[_i * 16 + _j * 4 + _k]
AA2CODONS = {}
for _c, _a in CODONS.items():
    AA2CODONS.setdefault(_a, []).append(_c)


def revcomp(s):
    return ''.join(COMP[c] for c in reversed(s))


def translate(s, to_stop=False):
    out = []
    for i in range(0, len(s) - len(s) % 3, 3):
        a = CODONS.get(s[i:i + 3], 'X')
        if a == '*' and to_stop:
            break
        out.append(a)
    return ''.join(out)


class Tx:
    def __init__(self, tid, gene, strand, exons, coding, cds_start=None, cds_end=None, tags=(),
                 sec=(), biotype=None, protein=None):
        self.id = tid; self.gene = gene; self.strand = strand
        self.exons = [tuple(e) for e in exons]          # genomic, ascending
        self.coding = coding
        self.cds_start = cds_start                      # transcript coordinate of first CDS base
        self.cds_end = cds_end                          # transcript coordinate after the stop codon (or tx end)
        self.tags = list(tags)
        self.sec = list(sec)                            # transcript coordinates of Sec codon starts
        self.biotype = biotype or ('protein_coding' if coding else 'lncRNA')
        self.protein = protein                          # proteome sequence (None: not in proteome)

    def length(self):
        return sum(e - s for s, e in self.exons)

    def tx2g(self, i):
        if self.strand == 1:
            for s, e in self.exons:
                if i < e - s:
                    return s + i
                i -= e - s
        else:
            for s, e in reversed(self.exons):
                if i < e - s:
                    return e - 1 - i
                i -= e - s
        raise IndexError(i)

    def g2tx(self, g):
        """None when intronic / outside"""
        off = 0
        ex = self.exons if self.strand == 1 else list(reversed(self.exons))
        for s, e in ex:
            if s <= g < e:
                return off + (g - s if self.strand == 1 else e - 1 - g)
            off += e - s
        return None

    def seq(self, chrom):
        s = ''.join(chrom[a:b] for a, b in self.exons)
        return s if self.strand == 1 else revcomp(s)

    def as_dict(self):
        return dict(id=self.id, gene=self.gene, strand=self.strand, exons=[list(e) for e in self.exons],
                    coding=self.coding, cds_start=self.cds_start if self.cds_start is not None else -1,
                    cds_end=self.cds_end if self.cds_end is not None else -1, tags=self.tags, sec=self.sec,
                    biotype=self.biotype, protein=self.protein or '')


class Gene:
    def __init__(self, gid, chrom, start, end, strand, name=None, biotype='protein_coding'):
        self.id = gid; self.chrom = chrom; self.start = start; self.end = end; self.strand = strand
        self.name = name or gid.replace('ENSG', 'GN').split('.')[0]; self.biotype = biotype
        self.txs = []

    def g2gene(self, g):
        return g - self.start if self.strand == 1 else self.end - 1 - g

    def gene2g(self, i):
        return self.start + i if self.strand == 1 else self.end - 1 - i

    def seq(self, chrom):
        s = chrom[self.start:self.end]
        return s if self.strand == 1 else revcomp(s)

    def as_dict(self):
        return dict(id=self.id, chrom=self.chrom, start=self.start, end=self.end, strand=self.strand,
                    name=self.name, txs=list(self.txs))


class Reference:
    def __init__(self):
        self.chroms = {}      # name -> sequence
        self.genes = {}       # id -> Gene (insertion order = file order)
        self.txs = {}         # id -> Tx   (insertion order = file order)

    # ---- output ---------------------------------------------------------------------------
    def gtf_lines(self):
        L = []
        for g in self.genes.values():
            st = '+' if g.strand == 1 else '-'
            L.append('\t'.join([g.chrom, 'HAVANA', 'gene', str(g.start + 1), str(g.end), '.', st, '.',
                                f'gene_id "{g.id}"; gene_type "{g.biotype}"; gene_name "{g.name}";']))
            for tid in g.txs:
                t = self.txs[tid]
                attr = (f'gene_id "{g.id}"; transcript_id "{t.id}"; gene_type "{g.biotype}"; '
                        f'gene_name "{g.name}"; transcript_type "{t.biotype}";')
                if t.coding:
                    attr += f' protein_id "{t.id.replace("ENST", "ENSP")}";'
                for tag in t.tags:
                    attr += f' tag "{tag}";'
                ts, te = t.exons[0][0], t.exons[-1][1]

                def line(ftype, s, e, frame='.'):
                    return '\t'.join([g.chrom, 'HAVANA', ftype, str(s + 1), str(e), '.', st, str(frame), attr])
                L.append(line('transcript', ts, te))
                for pos in t.sec:
                    a, b = t.tx2g(pos), t.tx2g(pos + 2)
                    L.append(line('Selenocysteine', min(a, b), max(a, b) + 1))
                exs = t.exons if t.strand == 1 else list(reversed(t.exons))
                cds_g = None
                if t.coding and t.cds_start is not None:
                    # CDS proper excludes the stop codon when one is present
                    seq = t.seq(self.chroms[g.chrom])
                    cend = t.cds_end
                    if cend - 3 >= t.cds_start and seq[cend - 3:cend] in STOPS and (cend - t.cds_start) % 3 == 0:
                        cend -= 3
                    cds_g = (t.cds_start, cend)
                off = 0
                for s, e in exs:
                    L.append(line('exon', s, e))
                    n = e - s
                    if cds_g:
                        a, b = max(off, cds_g[0]), min(off + n, cds_g[1])
                        if a < b:
                            frame = (3 - (a - cds_g[0]) % 3) % 3
                            if 'cds_start_NF' in t.tags and a == cds_g[0]:
                                frame = getattr(t, 'first_frame', 0)
                            ga, gb = t.tx2g(a), t.tx2g(b - 1)
                            L.append(line('CDS', min(ga, gb), max(ga, gb) + 1, frame))
                    off += n
                if cds_g and cds_g[1] < t.length() and getattr(t, 'utr3', True):
                    # 3'UTR segments: GENCODE convention, the UTR starts right after the CDS
                    # and therefore includes the stop codon
                    off = 0
                    for s, e in exs:
                        n = e - s
                        a, b = max(off, cds_g[1]), off + n
                        if a < b:
                            ga, gb = t.tx2g(a), t.tx2g(b - 1)
                            L.append(line('UTR', min(ga, gb), max(ga, gb) + 1))
                        off += n
                if cds_g and cds_g[0] > (getattr(t, 'first_frame', 0) if 'cds_start_NF' in t.tags else 0) \
                        and getattr(t, 'utr5', True):
                    off = 0
                    for s, e in exs:
                        n = e - s
                        a, b = off, min(off + n, cds_g[0] - (getattr(t, 'first_frame', 0) if 'cds_start_NF' in t.tags else 0))
                        if a < b:
                            ga, gb = t.tx2g(a), t.tx2g(b - 1)
                            L.append(line('UTR', min(ga, gb), max(ga, gb) + 1))
                        off += n
        return L

    def write(self, d, prefix=''):
        os.makedirs(d, exist_ok=True)
        paths = dict(genome_fasta=os.path.join(d, prefix + 'genome.fasta'),
                     annotation_gtf=os.path.join(d, prefix + 'annotation.gtf'),
                     proteome_fasta=os.path.join(d, prefix + 'proteome.fasta'))
        with open(paths['genome_fasta'], 'w') as f:
            for n, s in self.chroms.items():
                f.write(f'>{n}\n')
                for i in range(0, len(s), 60):
                    f.write(s[i:i + 60] + '\n')
        with open(paths['annotation_gtf'], 'w') as f:
            f.write('\n'.join(self.gtf_lines()) + '\n')
        with open(paths['proteome_fasta'], 'w') as f:
            for t in self.txs.values():
                if t.protein is not None:
                    f.write(f'>{t.id.replace("ENST", "ENSP")}|{t.id}|{t.gene}|OTTHUMG0|-|{self.genes[t.gene].name}|{len(t.protein)}\n')
                    f.write(t.protein + '\n')
        return paths

    def features(self):
        """What the GTF text says, parsed independently of moPepGen: (genes, txs) in file order.
        tx: id, gene, chrom, strand, exons, cds [[s,e,frame]], utr, sec, tags, coding, span"""
        genes, txs = [], {}
        for line in self.gtf_lines():
            f = line.split('\t')
            s, e = int(f[3]) - 1, int(f[4])
            strand = 1 if f[6] == '+' else -1
            attrs = {}
            tags = []
            for a in f[8].rstrip(';').split(';'):
                k, v = a.strip().split(' ', 1)
                v = v.strip('"')
                if k == 'tag':
                    tags.append(v)
                else:
                    attrs[k] = v
            if f[2] == 'gene':
                genes.append(dict(id=attrs['gene_id'], chrom=f[0], start=s, end=e, strand=strand, txs=[]))
                continue
            tid = attrs['transcript_id']
            if tid not in txs:
                txs[tid] = dict(id=tid, gene=attrs['gene_id'], chrom=f[0], strand=strand, exons=[], cds=[], utr=[],
                                sec=[], tags=[], coding=self.txs[tid].protein is not None, span=None)
                next(g for g in genes if g['id'] == attrs['gene_id'])['txs'].append(tid)
            t = txs[tid]
            if f[2] == 'transcript':
                t['span'] = [s, e]; t['tags'] = sorted(tags)
            elif f[2] == 'exon':
                t['exons'].append([s, e])
            elif f[2] == 'CDS':
                t['cds'].append([s, e, int(f[7])])
            elif f[2] == 'UTR':
                t['utr'].append([s, e])
            elif f[2] == 'Selenocysteine':
                t['sec'].append([s, e])
        for t in txs.values():
            for k in ('exons', 'cds', 'utr', 'sec'):
                t[k].sort()
        for g in genes:
            g['txs'].sort()
        return genes, list(txs.values())

    def as_dict(self):
        return dict(chroms=self.chroms, genes=[g.as_dict() for g in self.genes.values()],
                    txs=[t.as_dict() for t in self.txs.values()])


# ---- random construction --------------------------------------------------------------------

PEPTIDE_AAS = 'ACDEFGHILMNPQSTVWY'


def rand_dna(r, n):
    return ''.join(r.choice('ACGT') for _ in range(n))


def rand_noncoding(r, n, atg_rate=0.04):
    """random sequence with a controlled number of ATGs so that 3-frame ORFs exist but are few"""
    s = []
    while len(s) < n:
        if r.random() < atg_rate:
            s += list('ATG')
        else:
            s.append(r.choice('ACGT'))
    return ''.join(s[:n])


def rand_protein(r, n, kr_rate=0.22, w_rate=0.05, extra=''):
    p = []
    for _ in range(n):
        x = r.random()
        if x < kr_rate:
            p.append(r.choice('KR'))
        elif x < kr_rate + w_rate:
            p.append('W')
        else:
            p.append(r.choice(PEPTIDE_AAS + extra))
    return ''.join(p)


def encode(r, prot):
    return ''.join(r.choice(AA2CODONS[a]) for a in prot)


def make_coding_tx_seq(r, n_aa, utr5, utr3, sec=0, with_stop=True):
    """-> (sequence, cds_start, cds_end, sec positions, protein)"""
    prot = 'M' + rand_protein(r, n_aa - 1)
    cds = encode(r, prot)
    secs = []
    if sec:
        # turn `sec` codons (not among the first 2) into TGA read as U
        idxs = sorted(r.sample(range(2, n_aa), min(sec, max(0, n_aa - 2))))
        cl = list(prot)
        for i in idxs:
            cds = cds[:3 * i] + 'TGA' + cds[3 * i + 3:]
            cl[i] = 'U'
        prot = ''.join(cl)
        secs = idxs
    u5 = rand_dna(r, utr5)
    # avoid an accidental in-frame stop... irrelevant in UTR; keep the UTR free of nothing special
    stop = r.choice(STOPS) if with_stop else ''
    u3 = rand_dna(r, utr3) if with_stop else ''
    seq = u5 + cds + stop + u3
    cds_start = utr5
    cds_end = utr5 + len(cds) + len(stop)
    return seq, cds_start, cds_end, [utr5 + 3 * i for i in secs], prot


def derive_protein(seq, cds_start, secs=()):
    """translation of the annotated ORF up to the first stop; annotated Sec codons read as U"""
    out = []
    for i in range(cds_start, len(seq) - (len(seq) - cds_start) % 3, 3):
        a = CODONS.get(seq[i:i + 3], 'X')
        if i in secs:
            a = 'U'
        if a == '*':
            break
        out.append(a)
    return ''.join(out)


def split_exons(r, n, n_exons, min_exon=4):
    """cut a transcript of length n into n_exons pieces -> list of lengths"""
    if n_exons <= 1 or n < n_exons * min_exon:
        return [n]
    cuts = set()
    tries = 0
    while len(cuts) < n_exons - 1 and tries < 200:
        tries += 1
        c = r.randrange(min_exon, n - min_exon + 1)
        if all(abs(c - d) >= min_exon for d in cuts):
            cuts.add(c)
    cuts = sorted(cuts)
    lens, prev = [], 0
    for c in cuts + [n]:
        lens.append(c - prev); prev = c
    return lens


class Builder:
    """Builds a Reference gene by gene on one chromosome."""

    def __init__(self, r, chrom='chr1'):
        self.r = r
        self.ref = Reference()
        self.chrom = chrom
        self.buf = []           # chromosome pieces
        self.pos = 0
        self.n = 0
        self._pad(r.randrange(3, 12))

    def _pad(self, n):
        s = rand_dna(self.r, n)
        self.buf.append(s); self.pos += n

    def add_gene(self, tx_seq, strand=1, n_exons=1, coding=True, cds_start=None, cds_end=None, sec=(),
                 tags=(), protein=None, intron=(2, 9), biotype=None, isoforms=0, flank=(0, 0), exon_lens=None, iso_terminal=False):
        """Place a transcript given in transcript orientation; returns its Tx.
        isoforms: number of extra isoforms derived by skipping one internal exon (non-coding)."""
        r = self.r
        self.n += 1
        gid = f'ENSG{self.n:05d}.1'
        tid = f'ENST{self.n:05d}.1'
        lens = list(exon_lens) if exon_lens else split_exons(r, len(tx_seq), n_exons)
        pieces = []
        off = 0
        for L in lens:
            pieces.append(tx_seq[off:off + L]); off += L
        if strand == -1:
            pieces = [revcomp(p) for p in reversed(pieces)]
        # gene may extend beyond the transcript (flank) to give gene coordinates an offset
        fl5, fl3 = flank
        gstart = self.pos
        self._pad(fl5) if fl5 else None
        exons = []
        for i, p in enumerate(pieces):
            if i > 0:
                self._pad(r.randrange(intron[0], intron[1] + 1))
            exons.append((self.pos, self.pos + len(p)))
            self.buf.append(p); self.pos += len(p)
        self._pad(fl3) if fl3 else None
        gend = self.pos
        g = Gene(gid, self.chrom, gstart, gend, strand,
                 biotype='protein_coding' if coding else (biotype or 'lncRNA'))
        t = Tx(tid, gid, strand, exons, coding, cds_start, cds_end, tags, sec, biotype, protein)
        g.txs.append(tid)
        self.ref.genes[gid] = g
        self.ref.txs[tid] = t
        for k in range(isoforms):
            if iso_terminal and len(exons) >= 2:
                # an isoform without the first or the last exon: its genomic extent differs from the main transcript's
                drop = r.choice([0, len(exons) - 1])
            elif len(exons) < 3:
                break
            else:
                drop = r.randrange(1, len(exons) - 1)
            ex2 = [e for i, e in enumerate(exons) if i != drop]
            tid2 = f'ENST{self.n:05d}{chr(ord("A") + k)}.1'.replace('A.1', '1.1').replace('B.1', '2.1')
            tid2 = f'ENST{self.n:05d}{k + 1}.1'
            t2 = Tx(tid2, gid, strand, ex2, False, biotype='retained_intron')
            g.txs.append(tid2)
            self.ref.txs[tid2] = t2
        self._pad(r.randrange(4, 15))
        return t

    def add_shadow_gene(self, tx, strand=None, biotype='lncRNA', exons=None):
        """A second gene on top of an existing transcript: same exons (sense copy, non-coding) or given sub-intervals,
        possibly on the opposite strand.  Used for overlapping-gene situations."""
        self.n += 1
        src = self.ref.genes[tx.gene]
        gid = f'ENSG{self.n:05d}.1'; tid = f'ENST{self.n:05d}.1'
        strand = strand or tx.strand
        ex = [tuple(e) for e in (exons or tx.exons)]
        g = Gene(gid, self.chrom, min(src.start, ex[0][0]), max(src.end, ex[-1][1]), strand, biotype=biotype)
        t = Tx(tid, gid, strand, ex, False, biotype=biotype)
        g.txs.append(tid)
        self.ref.genes[gid] = g
        self.ref.txs[tid] = t
        return t

    def finish(self):
        self.ref.chroms[self.chrom] = ''.join(self.buf)
        return self.ref


def random_reference(r, n_genes=3, coding_p=0.7, max_exons=3, aa_len=(12, 30), nc_len=(40, 110),
                     strands=(1, -1), sec_p=0.0, nf_p=0.0, isoform_p=0.0, utr5=(3, 12), utr3=(6, 20), flank_p=0.0, iso_terminal_p=0.0):
    b = Builder(r)
    for _ in range(n_genes):
        strand = r.choice(strands)
        nex = r.randrange(1, max_exons + 1)
        if r.random() < coding_p:
            tags = []
            sec = 1 if r.random() < sec_p else 0
            seq, cs, ce, secs, prot = make_coding_tx_seq(
                r, r.randrange(*aa_len), r.randrange(utr5[0], utr5[1] + 1), r.randrange(utr3[0], utr3[1] + 1), sec=sec)
            if r.random() < nf_p:
                # mRNA_end_NF: drop the stop codon and the 3'UTR
                tags.append('mRNA_end_NF')
                seq = seq[:ce - 3 - r.randrange(0, 3)]
                ce = len(seq)
                secs = [x for x in secs if x + 6 <= len(seq)]
                prot = derive_protein(seq, cs, secs)
            fl = (r.randrange(0, 7), r.randrange(0, 7)) if r.random() < flank_p else (0, 0)
            b.add_gene(seq, strand, nex, True, cs, ce, secs, tags, prot,
                       isoforms=1 if r.random() < isoform_p else 0, flank=fl, iso_terminal=bool(iso_terminal_p) and r.random() < iso_terminal_p)
        else:
            seq = rand_noncoding(r, r.randrange(*nc_len))
            fl = (r.randrange(0, 7), r.randrange(0, 7)) if r.random() < flank_p else (0, 0)
            b.add_gene(seq, strand, nex, False, isoforms=1 if r.random() < isoform_p else 0, flank=fl,
                       iso_terminal=bool(iso_terminal_p) and r.random() < iso_terminal_p)
    return b.finish()


def add_shadow(ref, tx, strand=None, biotype='lncRNA', exons=None):
    """Add to a finished Reference a second, non-coding gene overlapping transcript tx (same or given exons, any strand)."""
    n = len(ref.genes) + 50
    src = ref.genes[tx.gene]
    gid = f'ENSG{n:05d}.1'; tid = f'ENST{n:05d}.1'
    strand = strand or tx.strand
    ex = [tuple(e) for e in (exons or tx.exons)]
    g = Gene(gid, src.chrom, min(src.start, ex[0][0]), max(src.end, ex[-1][1]), strand, biotype=biotype)
    t = Tx(tid, gid, strand, ex, False, biotype=biotype)
    g.txs.append(tid)
    ref.genes[gid] = g
    ref.txs[tid] = t
    return t


def tiny_circle(r):
    """An 18-30 nt exon meant to be circularised: it holds a start codon right after a K / R codon, and rolling translation from
    that start codon runs for more than one turn of the circle (no stop codon in the frames it passes through first)."""
    for _ in range(400):
        n = r.randrange(18, 31)
        k = r.randrange(3, n - 6)
        body = [r.choice('ACGT') for _ in range(n)]
        body[k - 3:k] = r.choice(['AAG', 'CGG', 'AGA', 'AAA'])
        body[k:k + 3] = 'ATG'
        c = ''.join(body)
        roll = (c[k:] + c * 3)
        aa = 0
        for j in range(0, len(roll) - 2, 3):
            if roll[j:j + 3] in STOPS:
                break
            aa += 1
        if aa * 3 > n + 9:
            return c, k
    return None, None


def tiny_circle_reference(r):
    """One non-coding gene of three exons whose middle exon is a tiny_circle; returns (reference, transcript, position of the
    circle's designed start codon in the transcript)"""
    c, k = tiny_circle(r)
    if c is None:
        return None, None, None
    a = rand_noncoding(r, r.randrange(8, 20), atg_rate=0.0); z = rand_noncoding(r, r.randrange(8, 20), atg_rate=0.0)
    b = Builder(r)
    t = b.add_gene(a + c + z, r.choice((1, -1)), 3, False, exon_lens=[len(a), len(c), len(z)],
                   flank=(r.randrange(0, 5), r.randrange(0, 5)))
    return b.finish(), t, len(a) + k
