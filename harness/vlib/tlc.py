"""Running TLC and reading what it reports."""
import os, re, subprocess, shutil, time, json
from . import env

JAR = '/opt/veriftools/tla/tla2tools.jar'
CM = '/opt/veriftools/tla/CommunityModules-deps.jar'


class TLCResult:
    def __init__(self):
        self.rc = None
        self.out = ''
        self.generated = 0      # states generated (= transitions explored)
        self.distinct = 0       # distinct states
        self.depth = 0
        self.wall = 0.0
        self.ok = False         # finished with no error
        self.violation = None   # name of violated invariant / property / text
        self.printed = []       # PrintT lines (raw)
        self.coverage = {}      # action -> (distinct, total)
        self.errors = []

    def as_dict(self):
        return dict(rc=self.rc, generated=self.generated, distinct=self.distinct,
                    depth=self.depth, wall=round(self.wall, 2), ok=self.ok,
                    violation=self.violation)


def _classpath():
    cps = [JAR]
    d = os.path.dirname(JAR)
    for f in sorted(os.listdir(d)):
        if f.endswith('.jar') and os.path.join(d, f) != JAR:
            cps.append(os.path.join(d, f))
    return os.pathsep.join(cps)


def run(module, cfg=None, *, workers=None, envvars=None, timeout=3600, simulate=None,
        depth=None, seed=None, coverage=False, deadlock=False, extra=None, dfs=False,
        cwd=None, metadir=None, heap='4g'):
    """Run TLC on spec/<module>.tla with spec/<cfg>. Returns TLCResult."""
    cwd = cwd or env.SPEC
    cfg = cfg or (module + '.cfg')
    own_meta = metadir is None
    metadir = metadir or env.scratch('tlcmeta_')
    cmd = ['java', f'-Xmx{heap}', '-Xss64m', '-XX:+UseParallelGC', f'-Djava.io.tmpdir={metadir}']   # TLC's own tlc-<n> scratch goes with the metadir
    if dfs:
        cmd.append('-Dtlc2.tool.queue.IStateQueue=StateDeque')
    cmd += ['-cp', _classpath(), 'tlc2.TLC', '-metadir', metadir, '-noGenerateSpecTE',
            '-config', cfg, '-workers', str(workers or env.NCPU)]
    if not deadlock:
        cmd.append('-deadlock')       # -deadlock DISABLES deadlock checking
    if coverage:
        cmd += ['-coverage', '1']
    if simulate:
        cmd += ['-simulate', simulate]
    if depth:
        cmd += ['-depth', str(depth)]
    if seed is not None:
        cmd += ['-seed', str(seed)]
    if extra:
        cmd += list(extra)
    cmd.append(module)
    e = dict(os.environ)
    if envvars:
        e.update({k: str(v) for k, v in envvars.items()})
    r = TLCResult()
    t0 = time.time()
    try:
        p = subprocess.run(cmd, cwd=cwd, env=e, capture_output=True, text=True, timeout=timeout)
        r.rc = p.returncode
        r.out = p.stdout + p.stderr
    except subprocess.TimeoutExpired as ex:
        r.rc = -9
        r.out = (ex.stdout or b'').decode() if isinstance(ex.stdout, bytes) else (ex.stdout or '')
        r.errors.append('timeout')
    r.wall = time.time() - t0
    if own_meta:
        shutil.rmtree(metadir, ignore_errors=True)
    _parse(r)
    return r


_STATS = re.compile(r'(\d+) states generated, (\d+) distinct states found')
_DEPTH = re.compile(r'The depth of the complete state graph search is (\d+)')


def _parse(r):
    for m in _STATS.finditer(r.out):
        r.generated, r.distinct = int(m.group(1)), int(m.group(2))
    m = _DEPTH.search(r.out)
    if m:
        r.depth = int(m.group(1))
    r.printed = parse_prints(r.out)
    for line in r.out.splitlines():
        s = line.strip()
        m = re.match(r'Error: Invariant (\S+) is violated', s)
        if m:
            r.violation = m.group(1)
        m = re.match(r'Error: Action property (\S+) is violated', s)
        if m:
            r.violation = m.group(1)
        if s.startswith('Error: Temporal properties were violated'):
            r.violation = r.violation or 'temporal'
        if s.startswith('Error:') and r.violation is None:
            r.errors.append(s)
        m = re.match(r'<(\w+) line \d+, col \d+ to line \d+, col \d+ of module (\w+)>: (\d+):(\d+)', s)
        if m:
            r.coverage[m.group(1)] = (int(m.group(3)), int(m.group(4)))
    r.ok = (r.rc == 0 and r.violation is None and 'Model checking completed. No error has been found.' in r.out) \
        or (r.rc == 0 and r.violation is None and 'simulation' in r.out.lower() and not r.errors)
    if 'Error:' in r.out and r.violation is None and r.rc != 0:
        r.ok = False


def sany(path):
    p = subprocess.run(['java', '-cp', _classpath(), 'tla2sany.SANY', os.path.basename(path)],
                       cwd=os.path.dirname(path), capture_output=True, text=True)
    ok = p.returncode == 0 and 'Semantic errors' not in p.stdout and 'Parse Error' not in p.stdout \
        and 'Fatal' not in p.stdout and '*** Errors' not in p.stdout
    return ok, p.stdout + p.stderr


def parse_verdicts(printed):
    """Verdict lines are PrintT(<<"V", id, clause>>) -> [(id, clause)]; id is int or str."""
    out = []
    for s in printed:
        m = re.match(r'<<"V", (.+?), "(.*)">>$', s)
        if m:
            i = m.group(1)
            i = int(i) if re.fullmatch(r'-?\d+', i) else i.strip('"')
            out.append((i, m.group(2)))
    return out


def jsonable(o):
    """TLC's Json module rejects null: map None to "" (recursively)."""
    if o is None:
        return ""
    if isinstance(o, dict):
        return {str(k): jsonable(v) for k, v in o.items()}
    if isinstance(o, (list, tuple)):
        return [jsonable(v) for v in o]
    return o


def parse_prints(out):
    """PrintT values (tuples) possibly wrapped over several lines -> one normalised string each."""
    res = []
    buf = None
    depth = 0
    for line in out.splitlines():
        s = line.strip()
        if buf is None:
            if s.startswith('<<'):
                buf = ''
                depth = 0
            else:
                continue
        buf += (' ' if buf else '') + s
        # count brackets outside string literals
        instr = False
        for i, ch in enumerate(s):
            if ch == '"':
                instr = not instr
            elif not instr:
                if s[i:i + 2] == '<<':
                    depth += 1
                elif s[i:i + 2] == '>>':
                    depth -= 1
        if depth <= 0:
            b = re.sub(r'\s+', ' ', buf)
            b = b.replace('<< ', '<<').replace(' >>', '>>')
            res.append(b)
            buf = None
    return res
