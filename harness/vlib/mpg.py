"""In-process and subprocess drivers for the real moPepGen code (from /repo)."""
import argparse, os, sys, json, subprocess, glob, io, contextlib, logging
from pathlib import Path
from . import env

_ready = False


def ready():
    global _ready
    if not _ready:
        env.setup_repo_import()
        logging.disable(logging.CRITICAL)
        _ready = True


def call_variant_args(**kw):
    a = argparse.Namespace()
    a.command = 'callVariant'
    a.index_dir = None
    a.genome_fasta = None
    a.annotation_gtf = None
    a.proteome_fasta = None
    a.reference_source = None
    a.input_path = []
    a.output_path = None
    a.graph_output_dir = None
    a.max_adjacent_as_mnv = 0
    a.backsplicing_only = False
    a.coding_novel_orf = False
    a.selenocysteine_termination = False
    a.w2f_reassignment = False
    a.max_variants_per_node = [7]
    a.additional_variants_per_misc = [2]
    a.min_nodes_to_collapse = 30
    a.naa_to_collapse = 5
    a.inclusion_biotypes = None
    a.exclusion_biotypes = None
    a.cleavage_rule = 'trypsin'
    a.cleavage_exception = None
    a.miscleavage = '2'
    a.min_mw = '500.'
    a.min_length = 7
    a.max_length = 25
    a.quiet = True
    a.debug_level = 1
    a.noncanonical_transcripts = False
    a.invalid_protein_as_noncoding = False
    a.threads = 1
    a.timeout_seconds = 1800
    a.skip_failed = False
    for k, v in kw.items():
        setattr(a, k, v)
    for k in ('genome_fasta', 'annotation_gtf', 'proteome_fasta', 'output_path', 'index_dir',
              'graph_output_dir'):
        v = getattr(a, k)
        if v is not None:
            setattr(a, k, Path(v))
    a.input_path = [Path(x) for x in a.input_path]
    return a


def read_fasta(path):
    """-> list of (header, seq) in file order"""
    out = []
    hdr, seq = None, []
    with open(path) as f:
        for line in f:
            line = line.rstrip('\n')
            if line.startswith('>'):
                if hdr is not None:
                    out.append((hdr, ''.join(seq)))
                hdr, seq = line[1:], []
            elif line:
                seq.append(line.strip())
    if hdr is not None:
        out.append((hdr, ''.join(seq)))
    return out


def write_fasta(path, records, width=60):
    with open(path, 'w') as f:
        for h, s in records:
            f.write('>' + h + '\n')
            for i in range(0, len(s), width):
                f.write(s[i:i + width] + '\n')


def read_trace_dir(d):
    """All NDJSON events of a trace directory: {pid: [events in seq order]}"""
    out = {}
    for p in sorted(glob.glob(os.path.join(d, '*.ndjson'))):
        evs = [json.loads(l) for l in open(p) if l.strip()]
        evs.sort(key=lambda e: e['seq'])
        if evs:
            out[evs[0]['pid']] = evs
    return out


class RunResult:
    def __init__(self):
        self.ok = False
        self.error = None       # exception class name / exit code
        self.fasta = None       # list of (header, seq) or None when no FASTA
        self.events = {}        # pid -> events
        self.table = None
        self.stderr = ''

    @property
    def seqs(self):
        return None if self.fasta is None else sorted(s for _, s in self.fasta)


def run_call_variant(args, trace=False, fail=None, timeouts=None, parent_only=False):
    """Run callVariant in this process. Hooks are configured through the environment,
    which pathos/ppft workers inherit when the pool is created."""
    ready()
    from moPepGen import cli, _verif
    res = RunResult()
    tdir = None
    saved = {k: os.environ.get(k) for k in
             ('MOPEPGEN_VERIF_TRACE_DIR', 'MOPEPGEN_VERIF_FAIL', 'MOPEPGEN_VERIF_TIMEOUT')}
    try:
        if trace:
            tdir = env.scratch('trace_')
            os.environ['MOPEPGEN_VERIF_TRACE_DIR'] = tdir
        else:
            os.environ.pop('MOPEPGEN_VERIF_TRACE_DIR', None)
        os.environ['MOPEPGEN_VERIF_FAIL'] = ','.join(fail or [])
        os.environ['MOPEPGEN_VERIF_TIMEOUT'] = ','.join(f"{k}={v}" for k, v in (timeouts or {}).items())
        _verif._TIMEOUTS.clear()
        out = str(args.output_path)
        for p in (out, out.rsplit('.', 1)[0] + '_peptide_table.txt'):
            if os.path.exists(p):
                os.remove(p)
        try:
            with contextlib.redirect_stderr(io.StringIO()) as err:
                cli.call_variant_peptide(args)
            res.ok = True
        except BaseException as ex:   # SystemExit included
            if isinstance(ex, KeyboardInterrupt):
                raise
            res.error = type(ex).__name__ + ': ' + str(ex)[:200]
        res.stderr = err.getvalue()[-2000:]
        if os.path.exists(out) and res.ok:
            res.fasta = read_fasta(out)
        res.fasta_exists = os.path.exists(out)
        if tdir:
            res.events = read_trace_dir(tdir)
    finally:
        for k, v in saved.items():
            if v is None:
                os.environ.pop(k, None)
            else:
                os.environ[k] = v
    return res


def run_cli(argv, extra_env=None, hashseed='0', timeout=600, cwd=None):
    """Run `python -m moPepGen.cli <argv>` as a subprocess against /repo."""
    p = subprocess.run([env.PY, '-m', 'moPepGen.cli'] + [str(x) for x in argv],
                       env=env.child_env(extra_env, hashseed), capture_output=True, text=True,
                       timeout=timeout, cwd=cwd or env.scratch('cwd_'))
    return p


def run_py(code_or_file, args=(), extra_env=None, hashseed='0', timeout=3600, stdin=None):
    """Run a python snippet/file with the real code importable."""
    cmd = [env.PY] + (['-c', code_or_file] if '\n' in code_or_file or not code_or_file.endswith('.py')
                      else [code_or_file]) + [str(a) for a in args]
    e = env.child_env(extra_env, hashseed)
    e['PYTHONPATH'] = e['PYTHONPATH'] + os.pathsep + env.HARNESS
    return subprocess.run(cmd, env=e, capture_output=True, text=True, timeout=timeout, input=stdin)
