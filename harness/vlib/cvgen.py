"""Generators of callVariant inputs (reference + GVF records + configuration)."""
import os
from . import refgen

GVF_HEAD = """##fileformat=VCFv4.2
##mopepgen_version=1.4.6
##parser={parser}
##reference_index=
##genome_fasta=
##annotation_gtf=
##source={source}
##CHROM=<Description='Gene ID'>
##INFO=<ID=TRANSCRIPT_ID,Number=1,Type=String,Description="Transcript ID">
##INFO=<ID=GENE_SYMBOL,Number=1,Type=String,Description="Gene Symbol">
##INFO=<ID=GENOMIC_POSITION,Number=1,Type=String,Description="Genomic Position">
#CHROM\tPOS\tID\tREF\tALT\tQUAL\tFILTER\tINFO
"""


def gene_pos(ref, t, i):
    """transcript position -> gene position"""
    g = ref.genes[t.gene]
    return g.g2gene(t.tx2g(i))


def small_variant(r, ref, t, seq, start, kind):
    """Build one small variant at transcript position `start`; None if it does not fit in one exon."""
    bases = 'ACGT'
    if kind == 'SNV':
        rf = seq[start]; alt = r.choice([b for b in bases if b != rf]); end = start + 1
    elif kind == 'INS':
        rf = seq[start]; alt = rf + ''.join(r.choice(bases) for _ in range(r.randrange(1, 4))); end = start + 1
    elif kind == 'DEL':
        n = r.randrange(1, 4); end = start + 1 + n
        if end > len(seq):
            return None
        rf = seq[start:end]; alt = rf[0]
    else:  # MNV
        n = r.randrange(2, 4); end = start + n
        if end > len(seq):
            return None
        rf = seq[start:end]
        alt = ''.join(r.choice([b for b in bases if b != c]) for c in rf)
    # must lie within one exon (gene coordinates contiguous)
    gs = gene_pos(ref, t, start); ge = gene_pos(ref, t, end - 1) + 1
    if ge - gs != end - start:
        return None
    typ = 'SNV' if len(rf) == len(alt) == 1 else ('INDEL' if 1 in (len(rf), len(alt)) else 'MNV')
    vid = f'{typ}-{gs + 1}-{rf}-{alt}'
    return dict(tx=t.id, gene=t.gene, start=start, end=end, ref=rf, alt=alt, id=vid, type=typ, gstart=gs, gend=ge)


def del_at(ref, t, seq, pos, n=1):
    """deletion of the n bases after transcript position pos (the anchor)"""
    gs = gene_pos(ref, t, pos); ge = gene_pos(ref, t, pos + n) + 1
    if ge - gs != n + 1:
        return None
    rf = seq[pos:pos + n + 1]
    return dict(tx=t.id, gene=t.gene, start=pos, end=pos + n + 1, ref=rf, alt=rf[0], id=f'INDEL-{gs + 1}-{rf}-{rf[0]}', type='INDEL',
                gstart=gs, gend=ge)


def overlaps_any(v, vs):
    return any(v['id'] == w['id'] or (v['start'] == w['start'] and v['ref'] == w['ref'] and v['alt'] == w['alt']) for w in vs)


def random_small_variants(r, ref, t, n, dense=False, kinds=('SNV', 'SNV', 'INS', 'DEL', 'MNV'), lo=None):
    seq = t.seq(ref.chroms[ref.genes[t.gene].chrom])
    start_idx = (t.cds_start + 3) if t.coding else 3
    lo = start_idx - 1 if lo is None else lo
    hi = len(seq) - 1
    if hi <= lo + 2:
        return []
    if dense:
        c = r.randrange(lo, hi)
        window = (max(lo, c - 12), min(hi, c + 12))
    else:
        window = (lo, hi)
    out = []
    tries = 0
    while len(out) < n and tries < 60:
        tries += 1
        pos = r.randrange(window[0], window[1] + 1)
        kind = r.choice(kinds)
        if pos == start_idx - 1 and kind in ('SNV', 'MNV'):
            continue      # would alter the start codon: filtered by the tool, outside the property's scope
        v = small_variant(r, ref, t, seq, pos, kind)
        if v is None or overlaps_any(v, out):
            continue
        out.append(v)
    return out


def write_gvf(path, variants, parser='parseVEP', source='gSNP'):
    with open(path, 'w') as f:
        f.write(GVF_HEAD.format(parser=parser, source=source))
        for v in sorted(variants, key=lambda x: (x['gene'], x['tx'], x['gstart'])):
            f.write('\t'.join([v['gene'], str(v['gstart'] + 1), v['id'], v['ref'], v['alt'], '.', '.',
                               f"TRANSCRIPT_ID={v['tx']};GENE_SYMBOL=S;GENOMIC_POSITION=chr1:{v['gstart']}"]) + '\n')


def orf_end(t, seq):
    """moPepGen's orf.end: start of the 3'UTR (GENCODE: the stop codon) rounded down to the frame,
    or the end of the transcript when there is no 3'UTR"""
    cend = t.cds_end
    if cend - 3 >= t.cds_start and seq[cend - 3:cend] in refgen.STOPS and (cend - t.cds_start) % 3 == 0:
        cend -= 3
    lim = cend if cend < len(seq) else len(seq)
    return lim - (lim - t.cds_start) % 3


def tx_record(ref, t):
    """The transcript as the TLA+ definitional layer wants it."""
    seq = t.seq(ref.chroms[ref.genes[t.gene].chrom])
    if t.coding:
        ce = orf_end(t, seq)
    return dict(seq=list(seq), coding=bool(t.coding), orfStart=t.cds_start if t.coding else 0,
                orfEnd=ce if t.coding else 0, startNF='cds_start_NF' in t.tags, endNF='mRNA_end_NF' in t.tags,
                sec=list(t.sec), id=t.id)


def sec_ids(ref, t):
    """SECT-<gene position + 1> id of every annotated Sec codon -> its transcript position"""
    return {f'SECT-{gene_pos(ref, t, p) + 1}': p for p in t.sec}


def snv_at(ref, t, seq, pos, alt):
    gs = gene_pos(ref, t, pos)
    return dict(tx=t.id, gene=t.gene, start=pos, end=pos + 1, ref=seq[pos], alt=alt, id=f'SNV-{gs + 1}-{seq[pos]}-{alt}', type='SNV',
                gstart=gs, gend=gs + 1)


def var_record(v):
    return dict(start=v['start'], end=v['end'], ref=list(v['ref']), alt=list(v['alt']), id=v['id'])


def proteome_record(ref):
    return [dict(seq=list(t.protein), startNF='cds_start_NF' in t.tags) for t in ref.txs.values() if t.protein is not None]


def rand_cfg(r, rules=('trypsin',), exc_p=0.0):
    rule = r.choice(rules)
    lo = r.randrange(2, 6)
    return dict(rule=rule, exc=('trypsin_exception' if rule == 'trypsin' and r.random() < exc_p else ''),
                misc=r.randrange(0, 3), min_len=lo, max_len=r.randrange(max(lo + 4, 8), 26),
                min_mw=r.choice(['0.00005', '200.00005', '500.00005']))


def spec_cfg(p, **extra):
    whole, frac = p['min_mw'].split('.')
    mw5 = int(whole) * 100000 + int((frac + '00000')[:5])
    d = dict(rule=p['rule'], exc=p['exc'], misc=p['misc'], minLen=p['min_len'], maxLen=p['max_len'], minMw5=mw5,
             maxAdj=p.get('max_adj', 0), sect=bool(p.get('sect', False)), w2f=bool(p.get('w2f', False)))
    d.update(extra)
    return d


def cli_cfg(p):
    return dict(cleavage_rule=p['rule'], cleavage_exception=p['exc'] or None, miscleavage=str(p['misc']),
                min_mw=p['min_mw'], min_length=p['min_len'], max_length=p['max_len'], max_adjacent_as_mnv=p.get('max_adj', 0),
                selenocysteine_termination=bool(p.get('sect', False)), w2f_reassignment=bool(p.get('w2f', False)))


# ---- structural records (fusion, circRNA) for synthetic references ---------------------------------

FUSION_HEAD = GVF_HEAD.replace('#CHROM\tPOS', '##INFO=<ID=ACCEPTER_GENE_ID,Number=1,Type=String,Description="Accepter gene">\n#CHROM\tPOS')


def fusion_line(ref, dtx, lb, atx, rb):
    """Fusion record: lb = 0-based genomic position of the last donor base kept, rb = first acceptor base kept."""
    gd = ref.genes[dtx.gene]; ga = ref.genes[atx.gene]
    pos = gd.g2gene(lb) + 1            # gene coordinate just past the last donor base
    apos = ga.g2gene(rb)
    fid = f'FUSION-{dtx.id}:{pos}-{atx.id}:{apos}'
    refbase = gd.seq(ref.chroms[gd.chrom])[pos] if pos < gd.end - gd.start else 'A'
    line = '\t'.join([gd.id, str(pos + 1), fid, refbase, '<FUSION>', '.', '.',
                      f'TRANSCRIPT_ID={dtx.id};GENE_SYMBOL={gd.name};GENOMIC_POSITION=chr1:{lb + 1}:{lb + 1};ACCEPTER_GENE_ID={ga.id};'
                      f'ACCEPTER_TRANSCRIPT_ID={atx.id};ACCEPTER_SYMBOL={ga.name};ACCEPTER_POSITION={apos + 1};'
                      f'ACCEPTER_GENOMIC_POSITION=chr1:{rb + 1}:{rb + 1}'])
    return fid, line


def circ_line(ref, tx, exon_idx):
    """circRNA of the given exons (indices into tx.exons, genomic order)."""
    g = ref.genes[tx.gene]
    blocks = [tx.exons[k] for k in exon_idx]
    frags = []
    for s, e in blocks:
        a, b = (g.g2gene(s), g.g2gene(e - 1) + 1) if g.strand == 1 else (g.g2gene(e - 1), g.g2gene(s) + 1)
        frags.append((a, b))
    frags.sort()
    start = frags[0][0]
    cid = f'CIRC-{tx.id}-{start}:{frags[-1][1]}'
    line = '\t'.join([g.id, str(start), cid, '.', '.', '.', '.',
                      f"OFFSET={','.join(str(a - start) for a, b in frags)};LENGTH={','.join(str(b - a) for a, b in frags)};INTRON=;"
                      f"TRANSCRIPT_ID={tx.id};GENE_SYMBOL={g.name};GENOMIC_POSITION=chr1:{blocks[0][0]}:{blocks[-1][1]}"])
    return cid, line


def write_gvf_lines(path, lines, parser, source):
    with open(path, 'w') as f:
        f.write(GVF_HEAD.format(parser=parser, source=source))
        for l in lines:
            f.write(l + '\n')


# ---- alternative-splicing records (Insertion / Deletion / Substitution, gene coordinates) ------------------------

AS_HEAD = GVF_HEAD.replace('#CHROM\tPOS', '##INFO=<ID=START,Number=1,Type=Integer,Description="Start Position">\n'
                           '##INFO=<ID=END,Number=1,Type=Integer,Description="End Position">\n'
                           '##INFO=<ID=DONOR_START,Number=1,Type=Integer,Description="Donor Start Position">\n'
                           '##INFO=<ID=DONOR_END,Number=1,Type=Integer,Description="Donor End Position">\n#CHROM\tPOS')


def gene_exons(ref, t):
    """exons of t as gene-coordinate intervals in transcript order"""
    g = ref.genes[t.gene]
    out = []
    for s, e in (t.exons if t.strand == 1 else reversed(t.exons)):
        a = g.g2gene(s) if t.strand == 1 else g.g2gene(e - 1)
        out.append((a, a + (e - s)))
    return out


def as_records(r, ref, t, n=1, min_tx_pos=3, nested_p=0.0, kinds=None, nested_fs=False):
    """Random alternative-splicing records on transcript t.  Each item: dict(line=GVF line, var=the record as the
    replace-[start,end)-by-alt variant the oracle uses (transcript coordinates, callVariant's internal anchoring),
    meta=the record in gene coordinates for the spec's Denote)."""
    g = ref.genes[t.gene]
    chrom = ref.chroms[g.chrom]
    gseq = g.seq(chrom)
    seq = t.seq(chrom)
    ex = gene_exons(ref, t)
    nx = len(ex)
    offs = [0]
    for a, b in ex:
        offs.append(offs[-1] + (b - a))

    def txpos(gp):
        for k, (a, b) in enumerate(ex):
            if a <= gp < b:
                return offs[k] + gp - a
        return None
    out, used = [], []
    tries = 0
    while len(out) < n and tries < 40:
        tries += 1
        kind = r.choice(kinds or ['del_exon', 'del_end', 'del_start', 'ins_full', 'ins_part', 'ins_part', 'sub_exon'])
        rec = None
        if kind == 'del_exon' and nx >= 3:
            k = r.randrange(1, nx - 1)
            rec = dict(kind='Deletion', start=ex[k][0], end=ex[k][1], dstart=0, dend=0, id=f'SE_{ex[k][0]}-{ex[k][1]}')
        elif kind == 'del_end' and nx >= 2:
            k = r.randrange(0, nx - 1)
            d = r.randrange(1, max(2, min(7, ex[k][1] - ex[k][0] - 2)))
            rec = dict(kind='Deletion', start=ex[k][1] - d, end=ex[k][1], dstart=0, dend=0, id=f'A5SS_{ex[k][1] - d}-{ex[k][1]}')
        elif kind == 'del_start' and nx >= 2:
            k = r.randrange(1, nx)
            d = r.randrange(1, max(2, min(7, ex[k][1] - ex[k][0] - 2)))
            rec = dict(kind='Deletion', start=ex[k][0], end=ex[k][0] + d, dstart=0, dend=0, id=f'A3SS_{ex[k][0]}-{ex[k][0] + d}')
        elif kind in ('ins_full', 'ins_part') and nx >= 2:
            k = r.randrange(0, nx - 1)
            ia, ib = ex[k][1], ex[k + 1][0]
            if ib - ia < 3:
                continue
            if kind == 'ins_full':
                da, db = ia, ib
            else:
                da = r.randrange(ia, ib - 1); db = r.randrange(da + 1, ib + 1)
            rec = dict(kind='Insertion', start=ex[k][1] - 1, end=ex[k][1], dstart=da, dend=db, id=f'RI_{da}-{db}')
        elif kind == 'sub_exon' and nx >= 3:
            k = r.randrange(1, nx - 1)
            ia, ib = (ex[k][1], ex[k + 1][0]) if r.random() < 0.5 else (ex[k - 1][1], ex[k][0])
            if ib - ia < 3:
                continue
            da = r.randrange(ia, ib - 1); db = r.randrange(da + 1, ib + 1)
            rec = dict(kind='Substitution', start=ex[k][0], end=ex[k][1], dstart=da, dend=db, id=f'MXE_{ex[k][0]}-{ex[k][1]}-{da}-{db}')
        if rec is None:
            continue
        i, j = txpos(rec['start']), txpos(rec['end'] - 1)
        if i is None or j is None:
            continue
        donor = gseq[rec['dstart']:rec['dend']]
        if rec['kind'] == 'Deletion':
            if i - 1 < min_tx_pos or j + 1 >= len(seq):
                continue
            var = dict(start=i - 1, end=j + 1, ref=seq[i - 1:j + 1], alt=seq[i - 1])
        elif rec['kind'] == 'Insertion':
            if i < min_tx_pos:
                continue
            var = dict(start=i, end=i + 1, ref=seq[i], alt=seq[i] + donor)
        else:
            if i < min_tx_pos or j + 1 >= len(seq):
                continue
            var = dict(start=i, end=j + 1, ref=seq[i:j + 1], alt=donor)
        if any(var['start'] <= u['end'] and u['start'] <= var['end'] for u in used) or any(rec['id'] == o['meta']['id'] for o in out):
            continue
        used.append(var)
        refbase = gseq[rec['start']]
        info = f"TRANSCRIPT_ID={t.id};"
        if rec['kind'] != 'Insertion':
            info += f"START={rec['start'] + 1};END={rec['end']};"
        if rec['kind'] != 'Deletion':
            info += f"DONOR_GENE_ID={t.gene};DONOR_START={rec['dstart'] + 1};DONOR_END={rec['dend']};"
        info += f"GENE_SYMBOL={g.name};GENOMIC_POSITION=chr1:1-2"
        alt = {'Deletion': '<DEL>', 'Insertion': '<INS>', 'Substitution': '<SUB>'}[rec['kind']]
        line = '\t'.join([t.gene, str(rec['start'] + 1), rec['id'], refbase, alt, '.', '.', info])
        # small variants of the gene inside the donor segment ("nested"): written to the GVF as records of this
        # transcript at intronic gene positions; the oracle gets them in donor coordinates
        nested, nested_gvf = [], []
        if rec['kind'] != 'Deletion' and nested_p and r.random() < nested_p and rec['dend'] - rec['dstart'] >= 4:
            for _ in range(1 if nested_fs else r.randrange(1, 3)):
                kind = r.choice(['INS', 'DEL'] if nested_fs else ['SNV', 'SNV', 'INS', 'DEL'])
                gp = r.randrange(rec['dstart'], rec['dend'])       # sometimes on the first / last donor base
                if nested_fs:
                    # a frameshifting indel strictly inside the donor segment
                    if rec['dend'] - rec['dstart'] < 6:
                        continue
                    gp = r.randrange(rec['dstart'] + 1, rec['dend'] - 3)
                if kind == 'SNV':
                    rf = gseq[gp]; alt = r.choice([b for b in 'ACGT' if b != rf])
                elif kind == 'INS':
                    rf = gseq[gp]; alt = rf + ''.join(r.choice('ACGT') for _ in range(r.randrange(1, 3 if nested_fs else 4)))
                else:
                    n_ = r.randrange(1, 3 if nested_fs else 4)
                    if gp + 1 + n_ > rec['dend'] - (1 if nested_fs else 0):
                        continue
                    rf = gseq[gp:gp + 1 + n_]; alt = rf[0]
                if any(gp <= x['gstart'] + len(x['ref']) and x['gstart'] <= gp + len(rf) for x in nested_gvf):
                    continue
                typ = 'SNV' if len(rf) == len(alt) == 1 else 'INDEL'
                vid = f'{typ}-{gp + 1}-{rf}-{alt}'
                nested_gvf.append(dict(tx=t.id, gene=t.gene, gstart=gp, ref=rf, alt=alt, id=vid, start=-1, end=-1, type=typ))
                nested.append(dict(start=gp - rec['dstart'], end=gp - rec['dstart'] + len(rf), ref=list(rf), alt=list(alt), id=vid))
        out.append(dict(line=line, var=dict(var, id=rec['id'], tx=t.id, type=rec['kind']),
                        meta=dict(rec, ref=[refbase], nested=nested), gpos=rec['start'], nested_gvf=nested_gvf))
    return out


def tx_struct(ref, t):
    g = ref.genes[t.gene]
    return dict(chrom=list(ref.chroms[g.chrom]), gene=dict(start=g.start, end=g.end, strand=g.strand),
                tx=dict(strand=t.strand, exons=[list(e) for e in t.exons]))
