"""Paths, seeds, scratch directories, environment for running the real code."""
import os, sys, tempfile, shutil, atexit, random, json, hashlib

VERIF = os.path.dirname(os.path.dirname(os.path.dirname(os.path.abspath(__file__))))
REPO = os.environ.get('VERIF_REPO', '/repo')
SPEC = os.path.join(VERIF, 'spec')
COMPAT = os.path.join(VERIF, 'harness', 'compat')
HARNESS = os.path.join(VERIF, 'harness')
EVIDENCE = os.environ.get('VERIF_EVIDENCE') or os.path.join(VERIF, 'evidence')
REPLAYS = os.environ.get('VERIF_REPLAYS') or os.path.join(VERIF, 'replays')
PY = '/venv/bin/python'
NCPU = int(os.environ.get('VERIF_CPUS', str(min(16, os.cpu_count() or 4))))


def seed() -> int:
    try:
        return int(os.environ.get('VERIF_SEED', '0'))
    except ValueError:
        return 0


def rng(salt: str = '') -> random.Random:
    h = hashlib.sha256(f"{seed()}:{salt}".encode()).hexdigest()
    return random.Random(int(h[:16], 16))


_scratch = []


def scratch(prefix='verif_') -> str:
    base = os.environ.get('VERIF_SCRATCH') or tempfile.gettempdir()
    d = tempfile.mkdtemp(prefix=prefix, dir=base)
    _scratch.append(d)
    return d


def _cleanup():
    if os.environ.get("VERIF_KEEP") == "1":
        return
    for d in _scratch:
        shutil.rmtree(d, ignore_errors=True)


atexit.register(_cleanup)


def setup_repo_import():
    """Make the real code importable in this process, with the shim and hooks on."""
    os.environ.setdefault('MOPEPGEN_VERIF', '1')
    for p in (REPO, COMPAT):
        if p in sys.path:
            sys.path.remove(p)
    sys.path.insert(0, REPO)
    sys.path.insert(0, COMPAT)
    import sitecustomize  # noqa: F401  (the shim; harmless if not needed)
    if getattr(sitecustomize, '__file__', '').startswith(COMPAT) is False:
        # another sitecustomize was already imported: load ours explicitly
        import importlib.util
        spec = importlib.util.spec_from_file_location(
            'verif_sitecustomize', os.path.join(COMPAT, 'sitecustomize.py'))
        mod = importlib.util.module_from_spec(spec)
        spec.loader.exec_module(mod)


def child_env(extra=None, hashseed='0'):
    e = dict(os.environ)
    e['PYTHONPATH'] = COMPAT + os.pathsep + REPO
    e['MOPEPGEN_VERIF'] = '1'
    if hashseed is not None:
        e['PYTHONHASHSEED'] = str(hashseed)
    if extra:
        e.update(extra)
    return e


def canon_hash(obj) -> str:
    return hashlib.sha256(json.dumps(obj, sort_keys=True, default=str).encode()).hexdigest()[:16]
