"""Generates /verif/MANIFEST.json from one table (run: /venv/bin/python harness/manifest_gen.py)."""
import json, os, subprocess
V = os.path.dirname(os.path.dirname(os.path.abspath(__file__)))
ALL = [f"C{i:02d}" for i in range(1, 21)]

CLAIMS = {
 'C06': dict(
    text=("TLC model-checks spec/CallVariantRun.tla (dispatch loop, workers, table, tally) for every skip pattern, "
          "failing-unit set, thread count 1..4 and worker completion order within the bound: a finished run wrote exactly "
          "the valid peptides of all non-skipped transcripts. Real runs (thread counts, record partitions into files, file "
          "orders, .idx, index directory, hash seeds) are recorded by guarded hooks and every event must be the spec action "
          "with the logged values (CallVariantRunTrace.tla), with the invariants evaluated at each step. Runs with an injected timeout on one transcript (retry ladder 7,1 / 2,0) under --threads 1 and 2 must give the same peptide set (MonotoneTrace kind same); a pair that differs is repeated 6 more times per thread count and only counted as thread dependence when each thread count is stable by itself (recorded finding: with binding limits identical runs of the unchanged tool differ)."),
    note=("Per-unit peptide sets of an input are taken from a threads=1 reference run of the same tree; the schedule space is "
          "exhaustive in the model and sampled in real runs; Biopython compat shim (harness/compat) is trusted."),
    technique="TLA+ state machine + TLC exhaustive check; trace validation of hooked real runs", ref='6 C06'),
 'C07': dict(
    text=("Same specification: UnitFail is enabled for every processing unit; TLC covers every failing subset (bounded), both "
          "values of --skip-failed and threads; invariants FinishedComplete/FinishedAllowed/AbortJustified/TallyOK and liveness "
          "RightEnding. Real runs with faults injected at the entry of the three per-unit callers (every subset up to a bound) "
          "are validated as traces: with --skip-failed the run finishes with exactly the other units' peptides and the tally; "
          "without it the run ends with an error and no FASTA. Two inputs carry a transcript whose variant series cannot be loaded (the specification's invalid set), last / in the middle of the annotation order."),
    note=("Failures are injected exceptions at unit entry (guarded hook), not organic crashes; raw circRNA peptide sets come "
          "from a reference run in which main units fail."),
    technique="TLA+ state machine + TLC; fault-injection trace validation", ref='6 C07'),
}
CLAIMS['C10'] = dict(
    text=("spec/Cleavage.tla states the 35 ExPASy rules (+ trypsin exception) as window predicates and digestion/canonical "
          "pool as set definitions. MC_Cleavage makes every string of a bounded length over each rule's residue-class "
          "representatives (and over all 22 residues at length 3/4) a TLC state, checks window locality, partition "
          "independence, tiling and miscleavage monotonicity there, and requires the implementation's sites and pattern "
          "ranges for that string (recorded from iter_enzymatic_cleave_sites / _with_range) to equal the spec's. PoolTrace "
          "requires the pools built by generateIndex, updateIndex and on the fly to equal CanonicalPool for random proteomes (with exception motifs) x cleavage settings, incl. a second parameter set that differs from the first in exactly one field (e.g. only the exception)."),
    note=("Rule predicates are my transcription of the ExPASy table; proteome sequences contain no internal X; mass "
          "thresholds are offset by 5e-5 Da so ties cannot occur; exhaustive within the stated string lengths only."),
    technique="TLA+ definitional spec evaluated exhaustively by TLC over bounded strings; implementation outputs validated against it", ref='6 C10')
CLAIMS['C12'] = dict(
    text=("spec/IndexDir.tla models the index directory (metadata.json versions and pool registry, pool files, reference "
          "files, annotation symlink) with one action per generateIndex/updateIndex/load invocation, including the crash "
          "paths of the real code. TLC explores the complete reachable state graph over 3 abstract parameter sets (bound, per replayed history, to a base set and two members of a family that differ from it in exactly one field: exception, miscleavage, min/max length, min mass, rule) and checks LoadRight, "
          "LoadGuarded, Faithful, Registry, UpdateKeeps, BadVersionRejected. TLC-generated histories (with the result and "
          "directory state the spec predicts after every step) are replayed into the real commands and compared step by step: "
          "exit status class, registered pools, content of each pool file, loaded pool/genome/proteome/annotation/coding data."),
    note=("A family of 7 parameter sets with pairwise different pools on one synthetic reference with trypsin-exception motifs; histories of length <= 7 sampled by TLC simulation "
          "(quick) plus all histories of length 4 over 2 parameter sets (thorough); version tampering edits metadata.json."),
    technique="TLA+ state machine + TLC; spec-generated histories replayed into the implementation", ref='6 C12')
CLAIMS['C11'] = dict(
    text=("spec/Annotation.tla defines gene/transcript coordinate maps, sequence extraction, ORF and Sec positions from the "
          "GTF features; AnnotationTrace has TLC compare, for every position of every gene and transcript of each generated "
          "annotation, what GenomicAnnotationOnDisk / TranscriptAnnotationModel return (incl. rejected intronic and out-of-range "
          "positions), checks the inverse laws on the spec side, and requires fully parsed, indexed and write->re-read models to "
          "equal the GTF's features. spec/PointerCache.tla models the bounded pointer cache; TLC enumerates every lookup "
          "history (<= 6 lookups, 4 keys + absent key, sizes 2 and 3; simulation at the real size 10) and each is replayed "
          "into GenePointerDict/TranscriptPointerDict with the returned model compared to the fully parsed one."),
    note=("Annotations are synthetic (introns >= 2 nt, one chromosome, GENCODE-style attributes); GTF text is parsed by the "
          "harness independently to obtain the expected features; cache size is lowered through the module constant."),
    technique="TLA+ definitional spec + TLC validation of recorded observations; TLC-enumerated cache histories replayed", ref='6 C11')
CLAIMS['C13'] = dict(
    text=("spec/GvfFormat.tla defines the GVF line of every record kind (1-based POS and position attributes, END untouched, "
          "symbolic ALT, first-base REF) and its parse; GvfTrace has TLC check, for structured and random records of every kind "
          "built in memory as the parsers build them, that the text the real code writes is Line(rec), what it reads back is "
          "Parse(line), and the second-generation text is identical (also circRNA/ciRNA records). spec/GvfPool.tla models GVF "
          "files, .idx files and the opened pool; TLC checks index-equivalent lookup, pointer = maximal run, stale index rejected "
          "for all histories in the bound, and recorded histories of real files (every grouping of records over 3 transcripts in "
          "2 files, indexGVF, edits, re-open) must be behaviours of it with the same pointer table."),
    note=("Attribute values contain no quote, semicolon, equals sign or tab (as every moPepGen parser emits them); per-transcript "
          "record sets are read through the pool's pointers (pointer.load) in the history traces and, on real references with records of every kind, through the variant-series conversion pool[tx] (GvfSeriesTrace: handed-out records = distinct record texts of a linear scan)."),
    technique="TLA+ format definition + state machine; TLC validation of recorded round trips and file histories", ref='6 C13')
CLAIMS['C01'] = dict(
    text=("spec/Variants.tla + Peptides.tla define, with no graph, the set C01 requires: for every compatible haplotype of the usable variants (adjacent same-class pairs merged as --max-adjacent-as-mnv does; alternative-splicing insertion / deletion / substitution records in the replace-[start,end)-by-alt form that Rmats.tla proves equal to their denotation), apply it to the transcript, translate from every permitted start to the stop (annotated Sec read as U, Sec-terminated forms and W>F images when those flags are on), digest under the case's rule/exception/miscleavage/limits incl. M-removed start peptides, and subtract the digest of the unmodified transcript (incl. its Sec-terminated / W>F forms when switched on) and the canonical pool. CallVariantOracle has TLC compute that set for each generated input and compare it with the FASTA the real callVariant wrote (Complete subset of output). 510 / 13 600 inputs over 17 modes (with VERIF_NESTED=1 a further mode asfs and variants nested in inserted segments): random references (both strands, coding/non-coding, multi-exon, NF tags, Sec, several genes), 1-5 small variants per transcript incl. dense clusters, adjacent and multi-allelic sites, variants aimed at stop codons (SNV, merged pair, MNV record, indels), alt-translation flags, Gly/Ala-rich proteins with binding mass limits, AS records, 13 / 35 enzymes, collapse knobs; complexity limits off."),
    note=("Bounded exhaustive per input (all haplotypes) but sampled over inputs; small variants inside one exon; fusion backbones are covered for coding donors whose exonic part kept contains the start codon, with the small variants of the donor and acceptor genes placed on the fused sequence (clause fusion_peptides_complete of FusionTrace on the C15 campaign; every compatible subset of the variants the tool's lookup takes), and circRNA backbones with the host transcript's small variants on the circle (clause circ_peptides_complete of CircTrace on the C17 campaign: circle read as four copies, every ATG of the first copy, every compatible subset of the variants lying inside a fragment off its first four bases and its last base); variants nested in an inserted AS segment are supported by the spec but off by default (VERIF_NESTED=1) because the tool's output for them is not deterministic run to run; recorded findings: cleavage patterns beyond P1/P1' evaluated per graph node, --naa-to-collapse 1, phantom cleavage sites in AS segments with nested variants."),
    technique='TLA+ definitional oracle evaluated by TLC per recorded input; implementation output validated against it', ref='12.4')
CLAIMS['C02'] = dict(
    text=("Same oracle, other inclusion: every FASTA sequence must lie in Sound (as Complete, but with the permissive adjacency rule, open-ended tail fragments, all nested variants, and W>F images of every product of a variant haplotype). In addition inputs are re-run with binding complexity limits (max-variants-per-node 0/1/2, additional-variants-per-misc 0/1) and with injected TimeoutErrors that walk caller_reducer's retry ladder (guarded hook): the outputs must stay inside the unlimited output, i.e. limits and retries only remove peptides."),
    note=('As C01; retries are provoked by the guarded timeout hook, not by real timeouts; circRNA backbones: clause circ_peptides_sound of CircTrace (every CIRC-labelled peptide is a product of the circle, carrying one compatible subset of the host transcript small variants in every copy, read as four copies; incl. tiny circles whose start codon a variant destroys and one pinned regression world); fusion soundness incl. small variants is decided in C15 (peptides_from_fused_sequence).'),
    technique='TLA+ definitional oracle + paired runs under restricted limits', ref='12.4')
CLAIMS['C04'] = dict(
    text=("OutputTrace.tla: for the FASTA and peptide table of every callVariant run of the C01 campaign and the FASTA of "
          "callNovelORF / callAltTranslation runs, TLC checks: no sequence in CanonicalPool(proteome, cfg) computed by the spec "
          "(incl. I->L images), length/mass limits, no X or *, each sequence once, (sequence, entry) pairs of table = FASTA, every "
          "row's sub-sequence = the stated (clipped) slice, header entries unique."),
    note="Canonical pool is the TLA+ pool of C10, not the tool's; mass ties excluded by construction.",
    technique="TLC validation of recorded outputs against the TLA+ canonical pool and limits", ref='6 C04')
CLAIMS['C08'] = dict(
    text=("Peptides.tla: NovelOrfTx = digest (with M-removed start peptides, W>F images when requested) of the translation from "
          "every ATG of the three frames of each selected transcript to the next stop or the transcript end, minus the canonical "
          "pool. The harness selects transcripts by the documented options (coding only with --coding-novel-orf; biotype "
          "inclusion/exclusion lists incl. the packaged default; not in the proteome; min-tx-length); TLC (AltOracle) requires "
          "the FASTA of the real callNovelORF to equal that set exactly and every ORF FASTA entry to be the ATG-initiated "
          "translation at its listed coordinates; ORF ids used in peptide headers must be listed."),
    note=("'lists exactly the ORFs' is checked as used-subset-of-listed plus correctness of every listed entry: the tool also lists "
          "ORFs all of whose peptides were filtered out, which I do not count as a violation."),
    technique="TLA+ definitional oracle evaluated by TLC per recorded input (equality both directions)", ref='6 C08')
CLAIMS['C09'] = dict(
    text=("Peptides.tla: AltTransTx = peptides of the annotated ORF (annotated Sec read as U) that exist only through translation "
          "stopping at an annotated Sec codon and/or W>F substitution of any non-empty subset of tryptophans, minus canonical pool, "
          "within limits. TLC (AltOracle) requires the FASTA of the real callAltTranslation to equal it for random coding "
          "references (0-2 Sec sites, NF tags, both strands) x flags x cleavage settings; every header must name a SECT/W2F event."),
    note=("Known finding: SECT peptides of mRNA_end_NF selenoproteins whose Sec codon lies in the open-ended last node are not "
          "reported by the tool."),
    technique="TLA+ definitional oracle evaluated by TLC per recorded input (equality both directions)", ref='6 C09')
CLAIMS['C18'] = dict(
    text=("spec/FastaOps.tla defines source sets of header entries (variant ids looked up in the GVF that lists them, ORF -> "
          "NovelORF, SECT, W2F -> CodonReassign, group map), the level list built from --order-source + GVF order + internal "
          "sources, the priority order of source sets (size, then levels, whole-set items), database keys with max-groups / "
          "additional-split / Remaining, merge as union, encode/decode. PoolOpsTrace has TLC check recorded runs of the real "
          "splitFasta (each peptide in exactly one database, the right one, all entries kept, nothing new), summarizeFasta (rows = "
          "counts per best source set, totals add up, equal to the sizes of the databases splitFasta makes under the same options), "
          "mergeFasta (union of sequences and of entries) and encodeFasta (dictionary restores every header, decoy marks kept)."),
    note="Wildcard order items ('*', '+') are not generated; source names contain no '-'; pools are synthetic.",
    technique="TLA+ definitional spec; TLC validation of recorded command outputs", ref='6 C18')
CLAIMS['C19'] = dict(
    text=("FilterTrace.tla states the per-entry Keep rule, the miscleavage-range rule (sites of the isolated peptide from "
          "Cleavage.tla) and the peptide rule; TLC requires the output of the real filterFasta (via --index-dir) to equal the "
          "expected sub-collection exactly for random pools x expression tables (values at, below, above the cutoff; header / "
          "skip-lines / column-name variants) x flags x denylists x miscleavage ranges x enzymes, and checks idempotence "
          "(filter of its own output) and monotonicity (stricter cutoff gives a sub-collection) on paired runs."),
    note="Integer expression values and cutoffs; closed miscleavage ranges only ('1:' crashes in the CLI's range parser and is not generated).",
    technique="TLA+ rule evaluated by TLC on recorded runs, incl. paired runs", ref='6 C19')
CLAIMS['C20'] = dict(
    text=("DecoyTrace.tla: for every recorded decoyFasta run TLC checks: record count, every target unchanged, exactly one decoy per "
          "target with the decoy string attached as requested, decoy sequence a permutation of the target's residues, N-/C-terminus "
          "and listed residues in place, residues at C-terminal cutters' cleavage sites in place, 'reverse' = the unique reversal of "
          "the free positions (without enzyme), requested output order, same output on a second run with the same seed, same set of "
          "records when the input records are permuted (distinct sequences)."),
    note=("Known finding: with --enzyme the kept position is the residue after the cleavage residue (pinned test depends on it); "
          "targets are distinct sequences, so the order-dependence for duplicate sequences is outside the generated domain; "
          "N-terminal cutters are checked for all clauses except the enzyme one."),
    technique="TLC validation of recorded runs (incl. paired runs) against a TLA+ statement of the decoy contract", ref='6 C20')
CLAIMS['C14'] = dict(
    text=("spec/Parsers.tla gives the meaning of a VEP row as an edit of the chromosome (SNV, deletion, insertion between two "
          "flanking bases, substitution of >= 3 bases, single-position multi-base allele) and of a small GVF record as an edit of "
          "the gene sequence; VepTrace has TLC check, for every position from one base before to one base after each transcript of "
          "random annotations (both strands) and every event kind, that the record the real VEPRecord.convert_to_variant_record "
          "emits has REF = gene sequence and denotes exactly the gene re-extracted from the edited chromosome, that rejections "
          "only happen at the transcript boundary and that events strictly inside are accepted; every row is judged a second time through the real parseVEP command line (one file with the rows of all transcripts in random order, outcome read off the emitted GVF). REDItools rows with counts at and "
          "around every threshold must give one record per (exonic transcript, accepted substitution) at the mapped gene position."),
    note="2-base substitutions (indistinguishable from insertions in VEP's columns) are outside the property; REDItools REF/ALT strand conventions are not checked.",
    technique="TLA+ definitional spec; TLC validation of recorded parser outputs, exhaustive over positions per annotation", ref='6 C14')
CLAIMS['C15'] = dict(
    text=("Parsers.tla defines donor/acceptor positions and the fused sequence (donor transcript up to the left breakpoint incl. "
          "retained intronic bases + acceptor from the right breakpoint). The real command lines parseSTARFusion, parseFusionCatcher "
          "and parseArriba (argparse included) are run on generated tool files for all ordered gene pairs x breakpoints at exon "
          "ends/starts, inside exons and in introns x evidence around the thresholds x unknown gene ids; FusionTrace has TLC check "
          "one record per eligible transcript pair at the spec's positions, skipping, and that every FUSION-labelled peptide the real "
          "callVariant produces from the STAR-Fusion GVF plus a GVF of small variants is a digestion product of the spec's fused sequence carrying a compatible subset of the variants placed on it (own records on the exonic parts, the gene's records on retained intronic stretches)."),
    note="REF base of fusion records is cosmetic and not checked; callVariant soundness is checked for STAR-Fusion output (the three parsers emit identical records).",
    technique="TLA+ definitional spec; TLC validation of CLI outputs and of callVariant peptides", ref='6 C15')
CLAIMS['C16'] = dict(
    text=("Rmats.tla defines an rMATS event as two exon chains (inclusion / skipping form, both genomic geometries of A5SS/A3SS), "
          "'transcript carries a form' (junction coordinates agree, inner exons coincide; for the single-junction events A5SS/A3SS also up to interjacent exons that overlap no exon of the event), the re-spliced exon list of the other "
          "form and what an Insertion / Deletion / Substitution record denotes on a transcript in gene coordinates (as callVariant "
          "applies it, REF base included). The real parseRMATS command line is run once per generated event (random genes on both "
          "strands, isoform sets carrying the inclusion form, the skipping form, both, forms with different outer exon ends, partial "
          "and unrelated layouts; IJC/SJC around --min-ijc/--min-sjc); the GVF is read back and RmatsTrace has TLC check for every "
          "record on a transcript that carries one of the forms: Denote(record) = sequence of the re-spliced transcript, the form "
          "produced is not carried by any annotated isoform, and its read support meets the threshold."),
    note=("Records on transcripts that carry neither form (partial layouts) are outside the statement and only counted; missing "
          "records (e.g. MXE uses > for --min-sjc, long A3SS exon being the last exon) are counted as information, not violations; a "
          "run that validates no record for some event type/strand exits 2 (vacuity guard)."),
    technique="TLA+ definitional spec of event forms and record denotation; TLC validation of CLI outputs", ref='6 C16')
CLAIMS['C17'] = dict(
    text=("Parsers.tla defines strand-corrected fragments, the circular sequence (genomic blocks in transcript orientation) and the "
          "back-splice id; the real parseCIRCexplorer command line is run on generated CIRCexplorer2/3 files (every contiguous exon "
          "subset, every intron with start/end perturbations, non-exon blocks, read number / fpb / score around the thresholds, "
          "tolerance ranges); the emitted GVF is re-read with the real reader and CircTrace has TLC check fragments, sequence, id, "
          "threshold and unknown-exon skipping, intron start tolerance, and the tally."),
    note="The end tolerance of ciRNA introns is only checked for exact matches (the tool also accepts any block ending before the next exon).",
    technique="TLA+ definitional spec; TLC validation of CLI outputs", ref='6 C17')
CLAIMS['C03'] = dict(
    text=('HeaderOracle.tla: for every (peptide, header entry) pair of every FASTA of the C01 campaign plus indel-rich extra inputs (about 1e4 / 3e5 entries) TLC checks that the named backbone is a transcript of the input, every named id is a record of that transcript (or SECT-<gene position> of an annotated Sec, W2F-<k>), and that applying exactly the named variants - no others - gives a translation in which the peptide is a digestion product (for SECT entries: a fragment cut before that Sec; for W2F entries: the image of a product under exactly the named residues); entry strings must be unique per FASTA. Every non-witness is classified by TLC (omitted upstream frameshift / upstream variants, overlapping variants named, unused adjacent partner, other allele, context-blind fragment, dense-cluster residual); only entries TLC proves to be in a recorded class are KNOWN-FINDINGs.'),
    note=('Linear transcripts with small variants and AS records; fusion / circRNA entries are checked by C15/C17/C18 for well-formedness and fused-sequence membership, not here. The dense-cluster residual class is broad (any mismatch confined to variants that have another input variant within 3 nt); isolated variants and all SECT/W2F entries are never matched by a finding.'),
    technique='TLA+ definitional witness evaluated and classified by TLC per recorded header entry', ref='12.4')
CLAIMS['C05'] = dict(
    text=("MonotoneTrace.tla: paired runs of one input under a stricter and a relaxed setting (miscleavage+1, min-length-1, max-length+3, lower min-mw, SECT, W2F, coding-novel-orf, one more variant record - every record in turn for inputs with adjacent / multi-allelic sites and for synthetic donors with two fusions + circRNA + downstream SNVs -, one more GVF file); TLC requires the stricter output to be a subset and every added peptide to be attributable (site count above the old limit, length/mass outside the old limit, SECT/W2F/ORF label, label naming the added variant); noncanonical-transcripts and backsplicing-only runs must be subsets of the unrestricted run. Inputs: the synthetic campaign, synthetic structural inputs, the repository's demo data with all six GVF files."),
    note=('Complexity limits off; recorded findings: SECT / W2F switches drop peptides that equal Sec-terminated / W>F forms of the unmodified transcript (decided by TLC from Peptides.tla), and added peptides whose labels omit the added upstream variant (decided by HeaderOracle).'),
    technique='TLC validation of paired real runs against a TLA+ attribution rule', ref='12.4')
PENDING = "not claimed in this revision: check not built yet (work in progress, see DESIGN.md section 12)"
NA = {}

def main():
    commits = subprocess.run(['git', '-C', '/repo', 'log', '--format=%h %s'], capture_output=True, text=True).stdout.splitlines()
    hooks = [c.split()[0] for c in commits if c.split(' ', 1)[1].startswith('verif:')]
    m = dict(
        version=1,
        setup_cmd="./bin/setup",
        hooks=dict(guard="MOPEPGEN_VERIF", enable="environment MOPEPGEN_VERIF=1 (pure Python, nothing is built); "
                   "MOPEPGEN_VERIF_TRACE_DIR / MOPEPGEN_VERIF_FAIL / MOPEPGEN_VERIF_TIMEOUT select the hook behaviour",
                   baseline_off_cmd="./bin/baseline_off", source_commits=hooks, add_only=True),
        engines=[dict(name="tlc", path="/opt/veriftools/tla/tla2tools.jar", serves_properties=sorted(CLAIMS),
                      kind_free_text="TLA+ specifications in spec/, model-checked and used for trace validation by TLC 1.8"),
                 dict(name="harness", path="harness/", serves_properties=sorted(CLAIMS),
                      kind_free_text="Python drivers that run the real code from /repo, record traces, replay TLC behaviours")],
        checks=[], not_applicable=[],
        notes="See DESIGN.md. ./bin/check <id> --tier quick|thorough; exit 0 held / 1 VIOLATION / 2 machinery failure.")
    for pid in ALL:
        if pid in CLAIMS:
            c = CLAIMS[pid]
            m['checks'].append(dict(
                property_id=pid, quick_cmd=f"./bin/check {pid} --tier quick",
                thorough_cmd=f"./bin/check {pid} --tier thorough", evidence_file=f"evidence/{pid}.json",
                replay_cmd_template=f"./bin/check {pid} --replay {{path}}", engine="tlc",
                level_claimed=dict(category=c.get('category', 'model_checking'), text=c['text'], design_ref=c['ref']),
                level_note=c['note'], technique=c['technique']))
        else:
            m['not_applicable'].append(dict(property_id=pid, reason=NA.get(pid, PENDING)))
    json.dump(m, open(os.path.join(V, 'MANIFEST.json'), 'w'), indent=1)
    print(f"MANIFEST: {len(m['checks'])} checks, {len(m['not_applicable'])} not claimed")

main()
