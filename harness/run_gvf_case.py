"""Worker for C13: GVF record <-> text round trips and pointer tables of real GVF files.
stdin: {"variants": [rec...], "circs": [rec...], "pools": [pool scenario...], "dir": scratch}
"""
import sys, json, os, io
sys.path.insert(0, os.path.dirname(os.path.abspath(__file__)))
from vlib import mpg

NUMERIC = {'START', 'END', 'DONOR_START', 'DONOR_END', 'ACCEPTER_START', 'ACCEPTER_POSITION'}


def tok_line(text):
    f = text.rstrip('\n').split('\t')
    info = []
    for kv in f[7].split(';'):
        k, v = kv.split('=', 1)
        if k in NUMERIC:
            info.append([k, int(v), ''])
        else:
            info.append([k, -1, v])
    return dict(chrom=f[0], pos=int(f[1]), id=f[2], ref=list(f[3]), alt=list(f[4]), info=info,
                qual_filter=[f[5], f[6]])


def tok_circ(text):
    f = text.rstrip('\n').split('\t')
    a = dict(kv.split('=', 1) for kv in f[7].split(';'))
    nums = lambda s: [int(x) for x in s.split(',')] if s != '' else []
    return dict(chrom=f[0], pos=int(f[1]), id=f[2], offsets=nums(a['OFFSET']), lengths=nums(a['LENGTH']),
                introns=nums(a['INTRON']), tx=a['TRANSCRIPT_ID'], symbol=a['GENE_SYMBOL'],
                gpos=a.get('GENOMIC_POSITION', '<missing>'))


def main():
    job = json.load(sys.stdin)
    mpg.ready()
    from moPepGen import seqvar, circ
    from moPepGen.seqvar import io as vio
    from moPepGen.circ import io as cio
    from moPepGen.SeqFeature import FeatureLocation, SeqFeature
    from moPepGen.seqvar.GVFMetadata import GVFMetadata
    out = dict(variants=[], circs=[], pools=[])
    for r in job.get('variants', []):
        try:
            attrs = {}
            for k, num, txt in r['attrs']:
                attrs[k] = num if txt == '' and num >= 0 else txt
            rec = seqvar.VariantRecord(
                location=FeatureLocation(seqname=r['gene'], start=r['start'], end=r['end']),
                ref=''.join(r['ref']), alt=''.join(r['alt']), _type=r['mtype'], _id=r['id'], attrs=attrs)
            t1 = rec.to_string()
            rec2 = vio.line_to_variant_record(t1 + '\n')
            t2 = rec2.to_string()
            parsed = dict(gene=rec2.location.seqname, start=int(rec2.location.start), end=int(rec2.location.end),
                          id=rec2.id, ref=list(rec2.ref), alt=list(rec2.alt), kind=rec2.type,
                          attrs=[[k, int(v), ''] if k in NUMERIC else [k, -1, str(v)] for k, v in rec2.attrs.items()])
            out['variants'].append(dict(ok=True, line1=tok_line(t1), parsed=parsed, line2=tok_line(t2),
                                        text_same=(t1 == t2), text=t1))
        except Exception as ex:
            out['variants'].append(dict(ok=False, error=type(ex).__name__ + ': ' + str(ex)))
    for c in job.get('circs', []):
        try:
            frags = []
            for k, (o, l) in enumerate(zip(c['offsets'], c['lengths'])):
                loc = FeatureLocation(seqname=c['gene'], start=c['start'] + o, end=c['start'] + o + l)
                frags.append(SeqFeature(chrom=c['gene'], location=loc, attributes={},
                                        type='intron' if k + 1 in c['introns'] else 'exon'))
            m = circ.CircRNAModel(c['tx'], frags, c['introns'], c['id'], c['gene'], c['symbol'], c['gpos'])
            t1 = m.to_string()
            m2 = cio.line_to_circ_model(t1 + '\n')
            t2 = m2.to_string()
            parsed = dict(gene=m2.gene_id, start=int(m2.fragments[0].location.start), id=m2.id,
                          offsets=[int(f.location.start) - int(m2.fragments[0].location.start) for f in m2.fragments],
                          lengths=[int(f.location.end) - int(f.location.start) for f in m2.fragments],
                          introns=list(m2.intron), tx=m2.transcript_id, symbol=m2.gene_name, gpos=m2.genomic_position)
            out['circs'].append(dict(ok=True, line1=tok_circ(t1), parsed=parsed, line2=tok_circ(t2), text_same=(t1 == t2),
                                     fragments=[[int(f.location.start), int(f.location.end)] for f in m2.fragments], text=t1))
        except Exception as ex:
            out['circs'].append(dict(ok=False, error=type(ex).__name__ + ': ' + str(ex)))
    # pool scenarios: {"files": [[[tx, id]...]...], "ops": [...]} -> events
    from pathlib import Path
    import argparse
    from moPepGen import cli
    for si, sc in enumerate(job.get('pools', [])):
        d = os.path.join(job['dir'], f'p{si}')
        os.makedirs(d, exist_ok=True)
        content = {}     # f -> list of (tx, id)
        events = []
        err = None

        def path(f):
            return os.path.join(d, f'f{f}.gvf')

        def write(f):
            uni = sc.get('unicode', 0)
            md = GVFMetadata(parser='parseVEP', source=f'src{f}', chrom='Gene ID',
                             genome_fasta='/home/Jos\u00e9 N\u00fa\u00f1ez/gen\u00f6me.fasta' if uni else None)
            lines = md.to_strings() + ['#CHROM\tPOS\tID\tREF\tALT\tQUAL\tFILTER\tINFO']
            for k, (tx, rid) in enumerate(content[f]):
                sym = 'S\u00e9\u00df' if uni == 2 and k % 2 == 0 else 'S'
                lines.append(f"G{tx}\t{10 + k}\tSNV-{10 + k}-A-T-{rid}\tA\tT\t.\t.\tTRANSCRIPT_ID={tx};GENE_SYMBOL={sym};GENOMIC_POSITION=chr1:{k}")
            # some scenarios leave the last line without a line break (hand-edited / concatenated files)
            open(path(f), 'w', encoding='utf-8').write('\n'.join(lines) + ('' if sc.get('nonl') else '\n'))
        try:
            for op in sc['ops']:
                if op['op'] == 'append':
                    content.setdefault(op['f'], []).append((op['tx'], op['id'])); write(op['f'])
                    events.append(dict(event='append', f=op['f'], tx=op['tx'], id=op['id']))
                elif op['op'] == 'drop':
                    content[op['f']].pop(); write(op['f'])
                    events.append(dict(event='drop', f=op['f']))
                elif op['op'] == 'index':
                    a = argparse.Namespace(command='indexGVF', input_path=Path(path(op['f'])), quiet=True, debug_level=1)
                    cli.index_gvf(a)
                    events.append(dict(event='index', f=op['f']))
                elif op['op'] == 'open':
                    files = [Path(path(f)) for f in sorted(content) if content[f]]
                    pool = seqvar.VariantRecordPoolOnDisk(gvf_files=files)
                    opener = seqvar.VariantRecordPoolOnDiskOpener(pool)
                    try:
                        opener.open()
                        table = []
                        used = [f for f in sorted(content) if content[f]]
                        for key, ptrs in pool.pointers.items():
                            for ptr in ptrs:
                                fi = used[[h.name for h in pool.gvf_handles].index(ptr.handle.name)]
                                recs = ptr.load()
                                # byte range -> record range
                                data = open(path(fi), 'rb').read()
                                first = data[:ptr.start].count(b'\n') - data[:ptr.start].count(b'\n#') - (1 if data.startswith(b'#') else 0)
                                nhead = sum(1 for l in data.split(b'\n') if l.startswith(b'#'))
                                frm = data[:ptr.start].count(b'\n') - nhead + 1
                                to = frm + len(recs) - 1
                                ok_ids = [(r.transcript_id, r.id.rsplit('-', 1)[1]) for r in recs] == \
                                    [(t, str(i)) for t, i in content[fi][frm - 1:to]]
                                table.append([fi, key, frm, to if ok_ids else -1])
                        events.append(dict(event='open', status='open', table=sorted(table)))
                    except ValueError as ex:
                        events.append(dict(event='open', status='error', table=[], msg=str(ex)))
                    finally:
                        opener.close()
                elif op['op'] == 'close':
                    events.append(dict(event='close'))
        except Exception as ex:
            import traceback
            err = type(ex).__name__ + ': ' + str(ex) + traceback.format_exc()[-600:]
        out['pools'].append(dict(events=events, error=err))
    sys.stdout.write('\n@@RESULT@@' + json.dumps(dict(ok=True, **out)))


if __name__ == '__main__':
    main()
