"""Worker: apply a history of index-directory operations with the real code.

stdin: {"ref": {genome_fasta, annotation_gtf, proteome_fasta}, "dir": path, "ops": [op...]}
op: {"op": "generate"|"update"|"load"|"fly"|"loadrefs"|"tamper", "p": cleavage params dict,
     "force": bool, "symlink": bool, "field": str}
result per op: {"status": "ok"|"exit"|"error:<Class>", "pool": [...], "meta": metadata.json content or null,
                "files": sorted dir listing, ...}
"""
import sys, json, os, argparse, io, contextlib, hashlib
sys.path.insert(0, os.path.dirname(os.path.abspath(__file__)))
from vlib import mpg
from pathlib import Path


def cl_args(p, **kw):
    a = argparse.Namespace(
        cleavage_rule=p['rule'], cleavage_exception=p.get('exc') or None, miscleavage=str(p['misc']),
        min_mw=str(p['min_mw']), min_length=p['min_len'], max_length=p['max_len'],
        quiet=True, debug_level=1, reference_source=None, invalid_protein_as_noncoding=False)
    for k, v in kw.items():
        setattr(a, k, v)
    return a


def snapshot(d):
    meta = None
    files = []
    if os.path.isdir(d):
        files = sorted(os.listdir(d))
        mp = os.path.join(d, 'metadata.json')
        if os.path.exists(mp):
            try:
                meta = json.load(open(mp))
            except Exception as ex:
                meta = {'unreadable': str(ex)}
    sigs = {}
    import pickle
    for f in files:
        if f.startswith('canonical_peptides_'):
            try:
                pool = pickle.load(open(os.path.join(d, f), 'rb'))
                sigs[f] = hashlib.sha256('\n'.join(sorted(pool)).encode()).hexdigest()[:12]
            except Exception as ex:
                sigs[f] = 'unreadable'
    return dict(meta=meta, files=files, pool_sigs=sigs)


def main():
    top = json.load(sys.stdin)
    mpg.ready()
    allout = []
    for job in top.get('jobs', [top]):
        allout.append(one(job))
    sys.stdout.write('\n@@RESULT@@' + json.dumps(dict(ok=True, results=allout if 'jobs' in top else allout[0])))


def one(job):
    from moPepGen import cli, params
    from moPepGen.cli import common
    from moPepGen.index import IndexDir
    ref = {k: Path(v) for k, v in job['ref'].items()}
    d = Path(job['dir'])
    out = []
    for op in job['ops']:
        res = dict(op=op['op'])
        try:
            with contextlib.redirect_stderr(io.StringIO()):
                if op['op'] == 'generate':
                    a = cl_args(op['p'], command='generateIndex', output_dir=d, gtf_symlink=bool(op.get('symlink')),
                                force=bool(op.get('force')), **ref)
                    cli.generate_index(a)
                elif op['op'] == 'update':
                    a = cl_args(op['p'], command='updateIndex', index_dir=d, force=bool(op.get('force')))
                    cli.update_index(a)
                elif op['op'] in ('load', 'fly'):
                    p = op['p']
                    cp = params.CleavageParams(enzyme=p['rule'], exception=p.get('exc') or None, miscleavage=int(p['misc']),
                                               min_mw=float(p['min_mw']), min_length=p['min_len'], max_length=p['max_len'])
                    if op['op'] == 'load':
                        a = cl_args(p, index_dir=d, genome_fasta=None, annotation_gtf=None, proteome_fasta=None)
                    else:
                        a = cl_args(p, index_dir=None, **ref)
                    genome, anno, proteome, pool = common.load_references(a, load_proteome=True, cleavage_params=cp)
                    res['pool'] = sorted(pool)
                    res['genome'] = {k: str(v.seq) for k, v in genome.items()}
                    res['proteome'] = {k: str(v.seq) for k, v in proteome.items()}
                    res['coding'] = sorted(t for t in anno.transcripts.keys() if anno.transcripts[t].is_protein_coding)
                    res['tx'] = {t: [[int(e.location.start), int(e.location.end)] for e in anno.transcripts[t].exon]
                                 for t in anno.transcripts.keys()}
                    if op['op'] == 'load':
                        res['coding_saved'] = sorted(IndexDir(d).load_coding_tx())
                elif op['op'] == 'tamper':
                    mp = d / 'metadata.json'
                    m = json.load(open(mp))
                    f = op['field']
                    if f == 'mopepgen_old':
                        m['version']['mopepgen'] = '1.2.9'
                    elif f == 'mopepgen_new':
                        m['version']['mopepgen'] = '9.9.9'
                    else:
                        m['version'][f] = '0.0.1'
                    json.dump(m, open(mp, 'w'), indent=2)
            res['status'] = 'ok'
        except SystemExit as ex:
            res['status'] = 'exit'
            res['code'] = ex.code if isinstance(ex.code, int) else 1
        except BaseException as ex:
            res['status'] = 'error:' + type(ex).__name__
            res['msg'] = str(ex)[:200]
        res.update(snapshot(str(d)))
        out.append(res)
    return out


main()
