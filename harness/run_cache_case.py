"""Worker: replay lookup histories into GenePointerDict / TranscriptPointerDict.
stdin: {"paths":..., "size": n, "keymap_tx": {k: id}, "keymap_gene": {k: id}, "histories": [[{key,result,cache,order}]]}
"""
import sys, json, os
from collections import deque
sys.path.insert(0, os.path.dirname(os.path.abspath(__file__)))
from vlib import mpg
from run_anno_case import proj_tx  # noqa (module has a main(); guard below)


def gene_proj(g):
    return dict(start=int(g.location.start), end=int(g.location.end), strand=int(g.strand),
                txs=sorted(g.transcripts), id=g.gene_id)


def main():
    job = json.load(sys.stdin)
    mpg.ready()
    from moPepGen import gtf, aa
    from moPepGen.gtf import GTFPointer, GtfIO, GenomicAnnotation
    GTFPointer.TX_DICT_CACHE_SIZE = job['size']
    GTFPointer.GENE_DICT_CACHE_SIZE = job['size']
    p = job['paths']
    disk = gtf.GenomicAnnotationOnDisk(); disk.generate_index(p['annotation_gtf'])
    full = GenomicAnnotation()
    with open(p['annotation_gtf']) as h:
        for rec in GtfIO.GtfIterator.iterate(h):
            rec.source = 'GENCODE'
            (full.add_gene_record if rec.type.lower() == 'gene' else full.add_transcript_record)(rec)
    for m in full.transcripts.values():
        m.sort_records()
    want_tx = {k: proj_tx(full.transcripts[v]) for k, v in job['keymap_tx'].items() if v in full.transcripts}
    for v in want_tx.values():
        v['coding'] = False      # coding status is not part of the pointer round trip here
    want_gene = {k: gene_proj(full.genes[v]) for k, v in job['keymap_gene'].items() if v in full.genes}
    bad = []
    state_ok = state_n = 0
    for which, d, keymap, want, proj in (('tx', disk.transcripts, job['keymap_tx'], want_tx, proj_tx),
                                         ('gene', disk.genes, job['keymap_gene'], want_gene, gene_proj)):
        inv = {v: k for k, v in keymap.items()}
        for hi, h in enumerate(job['histories']):
            d._cache = {}
            d._cached_keys = deque()
            for si, step in enumerate(h):
                key = keymap[step['key']]
                try:
                    m = d[key]
                    got = proj(m)
                    if which == 'tx':
                        got['coding'] = False
                    res = step['key'] if got == want.get(step['key']) else 'WRONG-MODEL'
                except KeyError as ex:
                    res = 'KeyError' if ex.args and ex.args[0] == key else f'KeyError({ex.args})'
                except Exception as ex:
                    res = type(ex).__name__
                if res != step['result']:
                    bad.append(dict(dict_kind=which, history=hi, step=si, key=step['key'], want=step['result'], got=res))
                    break
                state_n += 1
                try:
                    c = sorted(inv.get(x, x) for x in d._cache.keys())
                    o = [inv.get(x, x) for x in d._cached_keys]
                    sc = step['cache'] if isinstance(step['cache'], list) else []
                    if c == sorted(sc) and o == list(step['order']):
                        state_ok += 1
                except Exception:
                    pass
    sys.stdout.write('\n@@RESULT@@' + json.dumps(dict(ok=True, bad=bad[:50], nbad=len(bad), state_ok=state_ok, state_n=state_n)))


if __name__ == '__main__':
    main()
