"""Biopython >= 1.86 compatibility shim for moPepGen (verification sandbox only).

moPepGen's SeqRecord subclasses call ``super().__init__(seq=seq, *args)`` and
rely on ``SeqRecord.__add__``/``__getitem__``/``reverse_complement`` building a
*plain* SeqRecord whose ``__class__`` they then overwrite.  Biopython 1.88's
``SeqRecord._from_validated`` instead calls ``cls(seq, id, ...)`` for
subclasses, which collides with the subclasses' constructors.  This module is
picked up through PYTHONPATH (so it also reaches ppft worker processes and CLI
subprocesses) and restores the old behaviour.  It changes nothing when the
probe shows the installed Biopython does not need it.
"""
import os

def _install():
    try:
        from Bio.SeqRecord import SeqRecord
        from Bio.Seq import Seq
    except Exception:            # Biopython absent: nothing to do
        return
    fv = getattr(SeqRecord, '_from_validated', None)
    if fv is not None and not getattr(SeqRecord, '_verif_shimmed', False):
        plain = fv.__func__

        def _from_validated(cls, *args, **kwargs):
            return plain(SeqRecord, *args, **kwargs)
        SeqRecord._from_validated = classmethod(_from_validated)

        orig_init = SeqRecord.__init__

        def __init__(self, seq=None, *args, **kwargs):
            if isinstance(seq, str):
                seq = Seq(seq)
            orig_init(self, seq, *args, **kwargs)
        SeqRecord.__init__ = __init__
        SeqRecord._verif_shimmed = True

if os.environ.get('MOPEPGEN_VERIF_NOSHIM') != '1':
    _install()
