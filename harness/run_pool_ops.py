"""Worker for C18-C20: run splitFasta / summarizeFasta / mergeFasta / encodeFasta / filterFasta / decoyFasta in-process.
stdin: {"jobs": [{"op": ..., "args": {...}}]} ; paths are prepared by the caller.
"""
import sys, json, os, io, contextlib, argparse, glob
sys.path.insert(0, os.path.dirname(os.path.abspath(__file__)))
from vlib import mpg
from pathlib import Path

PATHKEYS = ('variant_peptides', 'novel_orf_peptides', 'alt_translation_peptides', 'output_prefix', 'output_path',
            'annotation_gtf', 'proteome_fasta', 'genome_fasta', 'index_dir', 'input_path', 'exprs_table', 'denylist',
            'output_image')


def ns(d):
    a = argparse.Namespace(quiet=True, debug_level=1, reference_source=None, invalid_protein_as_noncoding=False)
    for k, v in d.items():
        if k in PATHKEYS and v is not None:
            v = [Path(x) for x in v] if isinstance(v, list) else Path(v)
        elif k == 'gvf' and v is not None:
            v = [Path(x) for x in v]
        setattr(a, k, v)
    return a


def run_one(job):
    from moPepGen import cli
    op = job['op']
    if op == 'seq':
        return dict(ok=True, steps=[run_one(j) for j in job['steps']])
    if op == 'genindex':
        kw = job['args']
        a = argparse.Namespace(
            command='generateIndex', genome_fasta=Path(kw['genome_fasta']), annotation_gtf=Path(kw['annotation_gtf']),
            proteome_fasta=Path(kw['proteome_fasta']), reference_source=None, output_dir=Path(kw['output_dir']),
            gtf_symlink=False, force=False, invalid_protein_as_noncoding=False, cleavage_rule='trypsin',
            cleavage_exception=None, miscleavage='0', min_mw='500.', min_length=7, max_length=25, quiet=True, debug_level=1)
        try:
            with contextlib.redirect_stderr(io.StringIO()):
                cli.generate_index(a)
            return dict(ok=True)
        except BaseException as ex:
            return dict(ok=False, error=type(ex).__name__ + ': ' + str(ex)[:300])
    a = ns(job['args'])
    res = dict(ok=False, error='')
    try:
        with contextlib.redirect_stderr(io.StringIO()):
            if op == 'split':
                a.command = 'splitFasta'; cli.split_fasta(a)
                outs = {}
                pre = str(a.output_prefix)
                for f in glob.glob(pre + '_*.fasta'):
                    outs[os.path.basename(f)[len(os.path.basename(pre)) + 1:-len('.fasta')]] = mpg.read_fasta(f)
                res['outputs'] = outs
            elif op == 'summarize':
                a.command = 'summarizeFasta'; cli.summarize_fasta(a)
                res['table'] = open(a.output_path).read()
            elif op == 'merge':
                a.command = 'mergeFasta'; cli.merge_fasta(a)
                res['fasta'] = mpg.read_fasta(a.output_path)
            elif op == 'encode':
                a.command = 'encodeFasta'; cli.encode_fasta(a)
                res['fasta'] = mpg.read_fasta(a.output_path)
                res['dict'] = [l.rstrip('\n').split('\t', 1) for l in open(str(a.output_path) + '.dict')]
            elif op == 'filter':
                a.command = 'filterFasta'; cli.filter_fasta(a)
                res['fasta'] = mpg.read_fasta(a.output_path)
            elif op == 'decoy':
                a.command = 'decoyFasta'; cli.decoy_fasta(a)
                res['fasta'] = mpg.read_fasta(a.output_path)
        res['ok'] = True
    except BaseException as ex:
        if isinstance(ex, KeyboardInterrupt):
            raise
        import traceback
        res['error'] = type(ex).__name__ + ': ' + str(ex)[:300]
        res['tb'] = traceback.format_exc()[-1500:]
    return res


def main():
    top = json.load(sys.stdin)
    mpg.ready()
    out = [run_one(j) for j in top['jobs']]
    sys.stdout.write('\n@@RESULT@@' + json.dumps(dict(ok=True, results=out)))


if __name__ == '__main__':
    main()
