"""Dispatcher: ./bin/check <Cnn> [--tier quick|thorough] [--replay <path>]"""
import sys, os, argparse, importlib, traceback
sys.path.insert(0, os.path.dirname(os.path.abspath(__file__)))

REGISTRY = {
    'C15': ('checks.c15', 'check_c15'),
    'C16': ('checks.c16', 'check_c16'),
    'C17': ('checks.c17', 'check_c17'),
    'C14': ('checks.c14', 'check_c14'),
    'C20': ('checks.c20', 'check_c20'),
    'C19': ('checks.c19', 'check_c19'),
    'C18': ('checks.c18', 'check_c18'),
    'C01': ('checks.cv', 'check_c01'),
    'C02': ('checks.cv', 'check_c02'),
    'C03': ('checks.cv', 'check_c03'),
    'C04': ('checks.cv', 'check_c04'),
    'C05': ('checks.cv', 'check_c05'),
    'C06': ('checks.callrun', 'check_c06'),
    'C07': ('checks.callrun', 'check_c07'),
    'C08': ('checks.c0809', 'check_c08'),
    'C09': ('checks.c0809', 'check_c09'),
    'C10': ('checks.c10', 'check_c10'),
    'C11': ('checks.c11', 'check_c11'),
    'C12': ('checks.c12', 'check_c12'),
    'C13': ('checks.c13', 'check_c13'),
}


def main():
    ap = argparse.ArgumentParser()
    ap.add_argument('prop')
    ap.add_argument('--tier', default=os.environ.get('VERIF_TIER', 'quick'), choices=['quick', 'thorough'])
    ap.add_argument('--replay', default=None)
    a = ap.parse_args()
    if a.prop not in REGISTRY:
        print(f"unknown property {a.prop}")
        return 2
    mod, fn = REGISTRY[a.prop]
    try:
        m = importlib.import_module(mod)
        f = getattr(m, fn)
        if a.replay:
            return getattr(m, fn + '_replay', lambda p, t: f(t))(a.replay, a.tier)
        return f(a.tier)
    except SystemExit:
        raise
    except BaseException:
        traceback.print_exc()
        print(f"MACHINERY-FAILURE property={a.prop} unhandled exception in the harness")
        return 2


sys.exit(main())
