"""Worker: run many small callVariant (or callNovelORF / callAltTranslation) jobs in this process.
stdin: {"jobs": [{"cmd": "callVariant"|"callNovelORF"|"callAltTranslation", "args": {...}, "want_table": bool}]}
"""
import sys, json, os, io, contextlib, argparse
sys.path.insert(0, os.path.dirname(os.path.abspath(__file__)))
from vlib import mpg
from pathlib import Path


def run_one(job):
    from moPepGen import cli
    cmd = job.get('cmd', 'callVariant')
    a = mpg.call_variant_args(**job['args'])
    out = str(a.output_path)
    tbl = out.rsplit('.', 1)[0] + '_peptide_table.txt'
    for p in (out, tbl):
        if os.path.exists(p):
            os.remove(p)
    res = dict(ok=False, error='', fasta=None, table=None)
    if getattr(a, 'output_orf', None):
        a.output_orf = Path(a.output_orf)
    from moPepGen import _verif
    os.environ['MOPEPGEN_VERIF_TIMEOUT'] = ','.join(f"{k}={v}" for k, v in (job.get('timeouts') or {}).items())
    os.environ['MOPEPGEN_VERIF_FAIL'] = ','.join(job.get('fail') or [])
    _verif._TIMEOUTS.clear()
    try:
        with contextlib.redirect_stderr(io.StringIO()):
            if cmd == 'callVariant':
                cli.call_variant_peptide(a)
            elif cmd == 'callNovelORF':
                a.command = 'callNovelORF'
                cli.call_novel_orf_peptide(a)
            elif cmd == 'callAltTranslation':
                a.command = 'callAltTranslation'
                cli.call_alt_translation(a)
        res['ok'] = True
    except BaseException as ex:
        if isinstance(ex, KeyboardInterrupt):
            raise
        import traceback
        res['error'] = type(ex).__name__ + ': ' + str(ex)[:300]
        res['tb'] = traceback.format_exc()[-1200:]
    if res['ok'] and os.path.exists(out):
        res['fasta'] = mpg.read_fasta(out)
    if job.get('want_table') and os.path.exists(tbl):
        res['table'] = open(tbl).read()
    if cmd == 'callNovelORF' and getattr(a, 'output_orf', None) and os.path.exists(str(a.output_orf)):
        res['orf_fasta'] = mpg.read_fasta(str(a.output_orf))
    return res


def main():
    top = json.load(sys.stdin)
    mpg.ready()
    out = [run_one(j) for j in top['jobs']]
    sys.stdout.write('\n@@RESULT@@' + json.dumps(dict(ok=True, results=out)))


if __name__ == '__main__':
    main()
