"""Worker: record what the real reference model says about synthetic annotations.
stdin: {"jobs": [{"paths": {...}, "genes": [...], "txs": [...]}]}  (genes/txs as in refgen.as_dict)
"""
import sys, json, os, io
sys.path.insert(0, os.path.dirname(os.path.abspath(__file__)))
from vlib import mpg


def proj_tx(m):
    def iv(f):
        return [int(f.location.start), int(f.location.end)]
    tags = sorted(m.transcript.attributes.get('tag', []))
    return dict(strand=int(m.transcript.strand), exons=[iv(e) for e in m.exon],
                cds=[iv(c) + [c.frame if c.frame is not None else 0] for c in m.cds],
                utr=sorted(iv(u) for u in m.utr), sec=[iv(s) for s in m.selenocysteine], tags=tags,
                coding=bool(m.is_protein_coding), gene=m.transcript.gene_id, chrom=m.transcript.chrom,
                span=iv(m.transcript))


def guard(f, *a):
    try:
        return int(f(*a))
    except ValueError:
        return -1
    except Exception:
        return -2


def one(job):
    from moPepGen import gtf, dna, aa
    from moPepGen.gtf import GtfIO, GenomicAnnotation
    from moPepGen.gtf.GTFSourceInferrer import GTFSourceInferrer
    p = job['paths']
    genome = dna.DNASeqDict(); genome.dump_fasta(p['genome_fasta'])
    prot = aa.AminoAcidSeqDict(); prot.dump_fasta(p['proteome_fasta'])
    disk = gtf.GenomicAnnotationOnDisk(); disk.generate_index(p['annotation_gtf'])
    disk.check_protein_coding(prot, False)
    full = GenomicAnnotation()
    inf = GTFSourceInferrer()
    with open(p['annotation_gtf']) as h:
        for rec in GtfIO.GtfIterator.iterate(h):
            rec.source = inf.infer(rec)
            if rec.type.lower() == 'gene':
                full.add_gene_record(rec)
            else:
                full.add_transcript_record(rec)
    for m in full.transcripts.values():
        m.sort_records()
    full.check_protein_coding(prot, False)
    # write the fully parsed annotation back as GTF and index it again
    rew_path = p['annotation_gtf'].replace('.gtf', '.rewritten.gtf')
    with open(rew_path, 'w') as h:
        GtfIO.write(h, full)
    rew = gtf.GenomicAnnotationOnDisk(); rew.generate_index(rew_path)
    rew.check_protein_coding(prot, False)
    out = dict(genes=[], txs=[], gene_models=[])
    for g in job['genes']:
        gm = disk.genes[g['id']]
        chrom = genome[g['chrom']]
        o = dict(seq=list(str(gm.get_gene_sequence(chrom).seq)))
        o['g2gene'] = [guard(disk.coordinate_genomic_to_gene, x, g['id']) for x in range(g['start'] - 1, g['end'] + 1)]
        o['gene2g'] = [guard(disk.coordinate_gene_to_genomic, i, g['id']) for i in range(g['end'] - g['start'])]
        o['model'] = dict(start=int(gm.location.start), end=int(gm.location.end), strand=int(gm.strand),
                          txs=sorted(gm.transcripts))
        o['model_full'] = dict(start=int(full.genes[g['id']].location.start), end=int(full.genes[g['id']].location.end),
                               strand=int(full.genes[g['id']].strand), txs=sorted(full.genes[g['id']].transcripts))
        out['genes'].append(o)
    for t in job['txs']:
        tm = disk.transcripts[t['id']]
        g = next(x for x in job['genes'] if x['id'] == t['gene'])
        chrom = genome[g['chrom']]
        s = tm.get_transcript_sequence(chrom)
        n = len(s)
        o = dict(seq=list(str(s.seq)))
        o['orf'] = [int(s.orf.start), int(s.orf.end)] if s.orf is not None else [-1, -1]
        o['sec'] = [int(x.start) for x in s.selenocysteine]
        o['sec_end'] = [int(x.end) for x in s.selenocysteine]
        o['tx2g'] = [guard(disk.coordinate_transcript_to_genomic, i, t['id']) for i in range(n)]
        lo, hi = t['exons'][0][0], t['exons'][-1][1]
        o['g2tx'] = [guard(tm.get_transcript_index, x) for x in range(lo - 1, hi + 1)]
        o['gene2tx'] = [guard(disk.coordinate_gene_to_transcript, i, t['gene'], t['id'])
                        for i in range(g['end'] - g['start'])]
        try:
            o['cdna'] = list(str(tm.get_cdna_sequence(chrom).seq)) if tm.cds else []
        except Exception as ex:
            o['cdna'] = ['!' + type(ex).__name__]
        o['model_disk'] = proj_tx(tm)
        o['model_full'] = proj_tx(full.transcripts[t['id']])
        o['model_rewritten'] = proj_tx(rew.transcripts[t['id']])
        out['txs'].append(o)
    out['order_disk'] = list(disk.transcripts.keys())
    out['order_full'] = list(full.transcripts.keys())
    return out


def main():
    top = json.load(sys.stdin)
    mpg.ready()
    res = []
    for job in top['jobs']:
        try:
            res.append(dict(ok=True, obs=one(job)))
        except BaseException as ex:
            import traceback
            res.append(dict(ok=False, error=type(ex).__name__ + ': ' + str(ex), tb=traceback.format_exc()[-1500:]))
    sys.stdout.write('\n@@RESULT@@' + json.dumps(dict(ok=True, results=res)))


if __name__ == '__main__':
    main()
